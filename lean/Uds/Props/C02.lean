import Uds.Lemmas.Loops
import Uds.Lemmas.Py
/-
  C02 — well-formed positive responses decode to exactly the values the server encoded.
  `interpret (Spec.encode v) = v` for arbitrary record lists (by induction), field values and widths.
-/
namespace Uds.Props.C02
open Uds Uds.Model Uds.Spec

/-! ### ReadDTCInformation, availability mask + DTC records (sub-functions 02, 0A–0F, 13, 15 and 08, 09; with MemorySelection: 17) -/

/-- the record list survives, in order and in number, whatever its length -/
theorem records_loop_roundtrip (tol ign six sf09 first : Bool) (rs : List DtcRec) (acc : List DtcRec)
    (hr : ∀ r ∈ rs, RecOk six r ∧ recNonZero six ign r) :
    recordLoop tol ign six sf09 first (encRecs six rs) acc = .ok (acc.reverse ++ rs) := by
  have := recordLoop_prefix tol ign six sf09 first rs [] acc hr
  rw [List.append_nil] at this
  rw [this, recordLoop_nil]; simp

theorem records_roundtrip (c : DtcCfg) (sf : Nat) (six : Bool) (e av : UInt8) (rs : List DtcRec) (hms : hasMemSel sf = false)
    (hr : ∀ r ∈ rs, RecOk six r ∧ recNonZero six c.ign r) :
    recordsInterpret c sf six ([e, av] ++ encRecs six rs) =
      .ok { sfEcho := e.toNat, statusAvail := some av.toNat, count := rs.length, dtcs := rs } := by
  unfold recordsInterpret
  have hlen : ¬ (([e, av] ++ encRecs six rs).length < 2) := by simp
  simp only [hms, Bool.false_eq_true, if_false, optByte]
  have hg : guardPy (decide (([e, av] ++ encRecs six rs).length < 2)) PyErr.invalid = .ok () := guardPy_ok.2 (by simp)
  simp only [List.cons_append, List.nil_append] at hg ⊢
  simp only [idx, List.getElem?_cons_zero, List.getElem?_cons_succ, hg, bind, Except.bind, pure, Except.pure, List.drop_succ_cons, List.drop_zero]
  rw [records_loop_roundtrip _ _ _ _ _ rs [] hr]
  simp

theorem records_roundtrip_memsel (c : DtcCfg) (sf : Nat) (six : Bool) (e ms av : UInt8) (rs : List DtcRec) (hms : hasMemSel sf = true)
    (hr : ∀ r ∈ rs, RecOk six r ∧ recNonZero six c.ign r) :
    recordsInterpret c sf six ([e, ms, av] ++ encRecs six rs) =
      .ok { sfEcho := e.toNat, memSel := some ms.toNat, statusAvail := some av.toNat, count := rs.length, dtcs := rs } := by
  unfold recordsInterpret
  simp only [hms, if_true, optByte]
  have hg : guardPy (decide (([e, ms, av] ++ encRecs six rs).length < 3)) PyErr.invalid = .ok () := guardPy_ok.2 (by simp)
  simp only [List.cons_append, List.nil_append] at hg ⊢
  simp only [idx, List.getElem?_cons_zero, List.getElem?_cons_succ, hg, bind, Except.bind, pure, Except.pure, List.drop_succ_cons, List.drop_zero]
  rw [records_loop_roundtrip _ _ _ _ _ rs [] hr]
  simp

/-! ### number of DTC (sub-functions 01, 07, 11, 12) -/

theorem count_roundtrip (e av fmt : UInt8) (n : Nat) (hn : n < 65536) :
    countInterpret ([e, av, fmt] ++ toBE 2 n) = .ok { sfEcho := e.toNat, statusAvail := some av.toNat, format := some fmt.toNat, count := n } := by
  unfold countInterpret
  have hg : guardPy (decide (([e, av, fmt] ++ toBE 2 n).length < 5)) PyErr.invalid = .ok () := guardPy_ok.2 (by simp)
  have hs : slice ([e, av, fmt] ++ toBE 2 n) 3 5 = toBE 2 n := by
    simp [slice, List.take_of_length_le]
  have hu : unpackBE 2 (toBE 2 n) = .ok n := by
    simp [unpackBE, fromBE_toBE_of_lt (show n < 256 ^ 2 by omega), pure, Except.pure]
  simp only [hs, hu, hg, bind, Except.bind, pure, Except.pure]
  simp [idx, pure, Except.pure]

/-! ### RequestDownload / RequestUpload: maxNumberOfBlockLength is unsigned on 1..8 bytes -/

theorem xfer_roundtrip (w v : Nat) (hw : 1 ≤ w ∧ w ≤ 8) (hv : v < 256 ^ w) : xferInterpret (encMaxLen w v) = .ok (.xfer v) := by
  unfold xferInterpret encMaxLen
  have hb : (UInt8.ofNat (w * 16)).toNat = w * 16 := toNat_ofNat_lt (by omega)
  have hlen : ([UInt8.ofNat (w * 16)] ++ toBE w v).length = 1 + w := by simp; omega
  have hg1 : guardPy (decide (([UInt8.ofNat (w * 16)] ++ toBE w v).length < 1)) PyErr.invalid = .ok () := guardPy_ok.2 (by simp)
  have hi : idx ([UInt8.ofNat (w * 16)] ++ toBE w v) 0 = .ok (UInt8.ofNat (w * 16)) := by simp [idx, pure, Except.pure]
  have hsh : (w * 16) >>> 4 = w := by rw [Nat.shiftRight_eq_div_pow]; omega
  have hnw : ¬ w > 8 := by omega
  have hg2 : guardPy (decide (w > 8)) PyErr.notImpl = .ok () := guardPy_ok.2 (by simp [hnw])
  have hg3 : guardPy (decide (([UInt8.ofNat (w * 16)] ++ toBE w v).length < w + 1)) PyErr.invalid = .ok () := guardPy_ok.2 (by simp)
  have hr : readUIntAt ([UInt8.ofNat (w * 16)] ++ toBE w v) 1 w = .ok v := by
    unfold readUIntAt
    have : 1 + w ≤ ([UInt8.ofNat (w * 16)] ++ toBE w v).length := by omega
    simp only [this, if_true]
    simp [List.take_of_length_le, fromBE_toBE_of_lt hv]
  simp only [hg1, hi, hb, hsh, hg2, hg3, hr, bind, Except.bind, pure, Except.pure]

/-! ### ReadDataByIdentifier: any number of records -/

def DidsOk (cfg : DidCfg) (tol : Bool) : List (Nat × Bytes) → Prop
  | [] => True
  | (d, v) :: rest => d < 65536 ∧ (d ≠ 0 ∨ cfg.entries.any (·.1 == 0) = true ∨ tol = false) ∧
      (∃ len, fetchCodec cfg d = .ok len ∧ (∀ n, len = some n → v.length = n) ∧ (len = none → rest = [])) ∧ DidsOk cfg tol rest

theorem dictSet_new (acc : List (Nat × Bytes)) (d : Nat) (v : Bytes) (h : ∀ e ∈ acc, e.1 ≠ d) : dictSet acc d v = acc ++ [(d, v)] := by
  unfold dictSet
  have : acc.any (·.1 == d) = false := by
    rw [List.any_eq_false]; intro e he; simpa using h e he
  simp [this]

theorem rdbi_loop_roundtrip (cfg : DidCfg) (tol : Bool) (l acc : List (Nat × Bytes)) (h : DidsOk cfg tol l)
    (hnd : ((acc ++ l).map (·.1)).Nodup) : rdbiLoop cfg tol (encDids l) acc = .ok (acc ++ l) := by
  induction l generalizing acc with
  | nil => rw [rdbiLoop]; simp [encDids, pure, Except.pure]
  | cons e rest ih =>
    obtain ⟨d, v⟩ := e
    obtain ⟨hd, hz, ⟨len, hf, hl, hlast⟩, hrest⟩ := h
    have hlen : (encDids ((d, v) :: rest)).length = 2 + (v ++ encDids rest).length := by simp [encDids]
    have ht : (encDids ((d, v) :: rest)).take 2 = toBE 2 d := by
      simp only [encDids, List.append_assoc]
      rw [List.take_append_of_le_length (by simp)]; exact List.take_of_length_le (by simp)
    have hdr : (encDids ((d, v) :: rest)).drop 2 = v ++ encDids rest := by
      simp only [encDids, List.append_assoc]
      rw [List.drop_append_of_le_length (by simp)]; simp [List.drop_of_length_le]
    have hu : unpackBE 2 (toBE 2 d) = .ok d := by
      simp [unpackBE, fromBE_toBE_of_lt (show d < 256 ^ 2 by omega), pure, Except.pure]
    have hcond : (d == 0 && !cfg.entries.any (·.1 == 0) && tol && allZero (encDids ((d, v) :: rest))) = false := by
      rcases hz with hz | hz | hz
      · have : (d == 0) = false := by simpa using hz
        simp [this]
      · simp [hz]
      · simp [hz]
    have hnew : ∀ e ∈ acc, e.1 ≠ d := by
      intro e he heq
      rw [List.map_append, List.map_cons] at hnd
      have := List.nodup_append.1 hnd
      exact this.2.2 e.1 (List.mem_map_of_mem he) d (by simp) heq
    have hnd' : (((acc ++ [(d, v)]) ++ rest).map (·.1)).Nodup := by simpa using hnd
    rw [rdbiLoop]
    rw [dif_neg (by omega), dif_neg (by omega)]
    simp only [ht, hu, bind, Except.bind, hcond, Bool.false_eq_true, if_false, hf, hdr]
    cases len with
    | some n =>
      have hvn := hl n rfl
      have h1 : ¬ (v ++ encDids rest).length < n := by simp; omega
      have h2 : (v ++ encDids rest).take n = v := by rw [← hvn]; simp
      have h3 : (v ++ encDids rest).drop n = encDids rest := by rw [← hvn]; simp
      simp only [h1, if_false, h2, h3, dictSet_new acc d v hnew]
      rw [ih _ hrest hnd']; simp
    | none =>
      have := hlast rfl
      subst this
      simp only [encDids, List.append_nil, Nat.lt_irrefl, if_false, List.drop_length, List.take_length, dictSet_new acc d v hnew]
      rw [rdbiLoop]; simp [pure, Except.pure]

theorem didsOk_found (cfg : DidCfg) (tol : Bool) (l : List (Nat × Bytes)) (h : DidsOk cfg tol l) : ∀ e ∈ l, (cfg.find e.1).isSome = true := by
  induction l with
  | nil => intro e he; cases he
  | cons x rest ih =>
    obtain ⟨d, v⟩ := x
    obtain ⟨_, _, ⟨len, hf, _, _⟩, hrest⟩ := h
    intro e he
    rcases List.mem_cons.1 he with rfl | he
    · unfold fetchCodec at hf
      cases hc : cfg.find d with
      | none => simp [hc] at hf
      | some _ => rfl
    · exact ih hrest e he

/-- **the records of a ReadDataByIdentifier reply are returned as encoded, in order, whatever their number** (fixed-length codecs, the last
    one may read all remaining data) -/
theorem rdbi_roundtrip (cfg : DidCfg) (tol : Bool) (l : List (Nat × Bytes)) (h : DidsOk cfg tol l) (hnd : (l.map (·.1)).Nodup) :
    rdbiClient cfg tol (l.map (·.1)) (encDids l) = .ok (.rdbi l) := by
  have hfound := didsOk_found cfg tol l h
  have hcfg : checkDidConfig (some cfg) (l.map (·.1)) = .ok cfg := by
    have : (l.map (·.1)).all (fun d => (cfg.find d).isSome) = true := by
      rw [List.all_eq_true]; intro d hd
      obtain ⟨e, he, rfl⟩ := List.mem_map.1 hd
      exact hfound e he
    simp [checkDidConfig, this, pure, Except.pure]
  have hloop := rdbi_loop_roundtrip cfg tol l [] h (by simpa using hnd)
  have hi : rdbiInterpret cfg tol (l.map (·.1)) (encDids l) = .ok (.rdbi l) := by
    simp [rdbiInterpret, hcfg, hloop, bind, Except.bind, pure, Except.pure]
  unfold rdbiClient
  rw [hi]
  have h1 : (l.any fun v => !(l.map (·.1)).contains v.1) = false := by
    rw [List.any_eq_false]; intro e he
    have : (l.map (·.1)).contains e.1 = true := by
      rw [List.contains_iff_mem]; exact List.mem_map_of_mem he
    rw [this]; decide
  have h2 : ((l.map (·.1)).any fun x => !l.any (·.1 == x)) = false := by
    rw [List.any_eq_false]; intro d hd
    obtain ⟨e, he, rfl⟩ := List.mem_map.1 hd
    have : l.any (·.1 == e.1) = true := by
      rw [List.any_eq_true]; exact ⟨e, he, by simp⟩
    simp [this]
  simp only [h1, h2, Bool.false_eq_true, if_false, pure, Except.pure]

/-! ### extended data records of one DTC (sub-functions 06, 10, 19) -/

def ExtOk (size : Nat) (e : Nat × Bytes) : Prop := 0 < e.1 ∧ e.1 < 256 ∧ e.2.length = size

theorem ext_loop_roundtrip (tol : Bool) (size : Nat) (l : List (Nat × Bytes)) (acc : List (Nat × Bytes)) (h : ∀ e ∈ l, ExtOk size e) :
    extByDtcLoop tol size (encExts l) acc = .ok (acc ++ l) := by
  induction l generalizing acc with
  | nil =>
    rw [extByDtcLoop]
    simp [encExts, pure, Except.pure]
  | cons e rest ih =>
    obtain ⟨n, b⟩ := e
    obtain ⟨h0, h1, h2⟩ := h (n, b) (by simp)
    simp only at h0 h1 h2
    rw [extByDtcLoop]
    have hne : ¬ (encExts ((n, b) :: rest)).length = 0 := by simp [encExts]
    rw [dif_neg hne]
    have hi : idx (encExts ((n, b) :: rest)) 0 = .ok (UInt8.ofNat n) := by simp [encExts, idx, pure, Except.pure]
    have hn : (UInt8.ofNat n).toNat = n := toNat_ofNat_lt h1
    have hz : (n == 0) = false := by simpa using (show n ≠ 0 by omega)
    have hd : (encExts ((n, b) :: rest)).drop 1 = b ++ encExts rest := by simp [encExts]
    simp only [hi, bind, Except.bind, hn, hz, Bool.false_eq_true, if_false, hd]
    have hlen : ¬ (b ++ encExts rest).length < size := by simp; omega
    rw [if_neg hlen]
    have ht : (b ++ encExts rest).take size = b := by rw [← h2]; simp
    have hdr : (b ++ encExts rest).drop size = encExts rest := by rw [← h2]; simp
    rw [ht, hdr, ih _ (fun e he => h e (by simp [he]))]
    simp only [List.append_assoc, List.singleton_append]

/-! ### Authentication: length-prefixed parameters -/

theorem extractLen16_enc (b rest : Bytes) (h : b.length < 65536) : extractLen16 (encLen16 b ++ rest) = .ok (b, rest) := by
  unfold extractLen16 encLen16
  have hl : ¬ (toBE 2 b.length ++ b ++ rest).length < 2 := by simp
  rw [if_neg hl]
  have ht : (toBE 2 b.length ++ b ++ rest).take 2 = toBE 2 b.length := by
    rw [List.append_assoc, List.take_append_of_le_length (by simp)]; exact List.take_of_length_le (by simp)
  have hu : unpackBE 2 (toBE 2 b.length) = .ok b.length := by
    simp [unpackBE, fromBE_toBE_of_lt (show b.length < 256 ^ 2 by omega), pure, Except.pure]
  simp only [ht, hu, bind, Except.bind]
  have hge : (toBE 2 b.length ++ b ++ rest).length ≥ 2 + b.length := by simp
  rw [if_pos hge]
  have hd2 : (toBE 2 b.length ++ b ++ rest).drop 2 = b ++ rest := by
    rw [List.append_assoc, List.drop_append_of_le_length (by simp)]; simp [List.drop_of_length_le]
  have hd : (toBE 2 b.length ++ b ++ rest).drop (2 + b.length) = rest := by
    rw [← List.drop_drop, hd2]; simp
  rw [hd2, hd]
  simp only [List.take_left', pure, Except.pure]

theorem extractFields_enc (fields : List (String × Bytes)) (rest : Bytes) (h : ∀ f ∈ fields, f.2.length < 65536) :
    extractFields (fields.map (·.1)) (encLen16s fields ++ rest) = .ok (fields, rest) := by
  induction fields with
  | nil => simp [extractFields, encLen16s, pure, Except.pure]
  | cons f fs ih =>
    obtain ⟨n, b⟩ := f
    simp only [List.map_cons, extractFields, encLen16s, List.append_assoc]
    rw [extractLen16_enc b _ (h (n, b) (by simp))]
    simp only [bind, Except.bind]
    rw [ih (fun f hf => h f (by simp [hf]))]
    simp [pure, Except.pure]

def authNames (t : Nat) : List String :=
  if t == 1 then ["challengeServer", "ephemeralPublicKeyServer"]
  else if t == 2 then ["challengeServer", "certificateServer", "proofOfOwnershipServer", "ephemeralPublicKeyServer"]
  else if t == 3 then ["sessionKeyInfo"]
  else if t == 5 then ["challengeServer", "neededAdditionalParameter"]
  else if t == 7 then ["proofOfOwnershipServer", "sessionKeyInfo"]
  else if t == 6 then ["sessionKeyInfo"]
  else []

theorem idx_cons0 (b : UInt8) (l : Bytes) : idx (b :: l) 0 = .ok b := by simp [idx, pure, Except.pure]
theorem idx_cons1 (a b : UInt8) (l : Bytes) : idx (a :: b :: l) 1 = .ok b := by simp [idx, pure, Except.pure]

/-- tasks 1, 2, 3: only length-prefixed parameters -/
theorem auth_roundtrip_plain (t rv : UInt8) (fields : List (String × Bytes)) (ht : t.toNat = 1 ∨ t.toNat = 2 ∨ t.toNat = 3)
    (hn : fields.map (·.1) = authNames t.toNat) (hl : ∀ f ∈ fields, f.2.length < 65536) :
    authInterpret (t :: rv :: encLen16s fields) = .ok (.auth t.toNat rv.toNat fields) := by
  have hx := extractFields_enc fields [] hl
  rw [List.append_nil, hn] at hx
  have hf : authFields t.toNat (encLen16s fields) = .ok (fields, []) := by
    unfold authFields
    rcases ht with h | h | h <;> simp [h, authNames] at hx ⊢ <;> exact hx
  simp only [authInterpret, bind_ok, guardPy_ok, pure_ok]
  exact ⟨(), by simp, t, idx_cons0 _ _, rv, idx_cons1 _ _ _, (fields, []), by simpa using hf, (), by simp, rfl⟩

/-- tasks 5, 6, 7: a 16-byte algorithmIndicator first -/
theorem auth_roundtrip_algo (t rv : UInt8) (algo : Bytes) (fields : List (String × Bytes)) (ht : t.toNat = 5 ∨ t.toNat = 6 ∨ t.toNat = 7)
    (ha : algo.length = 16) (hn : fields.map (·.1) = authNames t.toNat) (hl : ∀ f ∈ fields, f.2.length < 65536) :
    authInterpret (t :: rv :: (algo ++ encLen16s fields)) = .ok (.auth t.toNat rv.toNat (("algorithmIndicator", algo) :: fields)) := by
  have hx := extractFields_enc fields [] hl
  rw [List.append_nil, hn] at hx
  have hdr : (algo ++ encLen16s fields).drop 16 = encLen16s fields := by rw [← ha]; simp
  have htk : (algo ++ encLen16s fields).take 16 = algo := by rw [← ha]; simp
  have hf : authFields t.toNat (algo ++ encLen16s fields) = .ok (("algorithmIndicator", algo) :: fields, []) := by
    have hnot : ¬ (t.toNat == 0 || t.toNat == 4 || t.toNat == 8) = true := by rcases ht with h | h | h <;> simp [h]
    have h1 : ¬ (t.toNat == 1) = true := by rcases ht with h | h | h <;> simp [h]
    have h2 : ¬ (t.toNat == 2) = true := by rcases ht with h | h | h <;> simp [h]
    have h3 : ¬ (t.toNat == 3) = true := by rcases ht with h | h | h <;> simp [h]
    have h567 : (t.toNat == 5 || t.toNat == 6 || t.toNat == 7) = true := by rcases ht with h | h | h <;> simp [h]
    have hnames : (if (t.toNat == 5) = true then ["challengeServer", "neededAdditionalParameter"]
        else if (t.toNat == 7) = true then ["proofOfOwnershipServer", "sessionKeyInfo"] else ["sessionKeyInfo"]) = authNames t.toNat := by
      rcases ht with h | h | h <;> simp [h, authNames]
    unfold authFields
    rw [if_neg hnot, if_neg h1, if_neg h2, if_neg h3, if_pos h567]
    simp only [bind_ok, guardPy_ok, pure_ok, hdr, htk, hnames]
    exact ⟨(), by simp; omega, (fields, []), hx, rfl⟩
  simp only [authInterpret, bind_ok, guardPy_ok, pure_ok]
  exact ⟨(), by simp, t, idx_cons0 _ _, rv, idx_cons1 _ _ _, (("algorithmIndicator", algo) :: fields, []), by simpa using hf, (), by simp, rfl⟩

theorem ext_roundtrip (c : DtcCfg) (sf : Nat) (e st : UInt8) (id size : Nat) (l : List (Nat × Bytes)) (hms : hasMemSel sf = false)
    (hid : id < 2 ^ 24) (hcfg : checkExtSize c.ext = .ok ()) (hsz : extSizeFor c.ext id = .ok size) (hl : ∀ x ∈ l, ExtOk size x) :
    extByDtcInterpret c sf (e :: (toBE 3 id ++ st :: encExts l)) =
      .ok { sfEcho := e.toNat, count := 1, dtcs := [{ id := id, status := st.toNat, ext := l }] } := by
  have hdrop1 : (e :: (toBE 3 id ++ st :: encExts l)).drop 1 = toBE 3 id ++ st :: encExts l := rfl
  have hbe : be3 (toBE 3 id ++ st :: encExts l) = id := be3_toBE id _ hid
  have hst : idx (e :: (toBE 3 id ++ st :: encExts l)) 4 = .ok st := by
    simp [idx, toBE, pure, Except.pure]
  have hd5 : (e :: (toBE 3 id ++ st :: encExts l)).drop 5 = encExts l := by simp [toBE]
  simp only [extByDtcInterpret, hms, Bool.false_eq_true, if_false, bind_ok, guardPy_ok, pure_ok, optByte]
  refine ⟨e, idx_cons0 _ _, (), hcfg, (), (by simp only [List.length_cons, List.length_append, toBE_length]; simp; omega), none, rfl, st, hst, size, by rw [hdrop1, hbe]; exact hsz, l, ?_, ?_⟩
  · rw [hd5]; simpa using ext_loop_roundtrip c.tol size l [] hl
  · rw [hdrop1, hbe]

theorem ext_roundtrip_memsel (c : DtcCfg) (sf : Nat) (e ms st : UInt8) (id size : Nat) (l : List (Nat × Bytes)) (hms : hasMemSel sf = true)
    (hid : id < 2 ^ 24) (hcfg : checkExtSize c.ext = .ok ()) (hsz : extSizeFor c.ext id = .ok size) (hl : ∀ x ∈ l, ExtOk size x) :
    extByDtcInterpret c sf (e :: ms :: (toBE 3 id ++ st :: encExts l)) =
      .ok { sfEcho := e.toNat, memSel := some ms.toNat, count := 1, dtcs := [{ id := id, status := st.toNat, ext := l }] } := by
  have hdrop2 : (e :: ms :: (toBE 3 id ++ st :: encExts l)).drop 2 = toBE 3 id ++ st :: encExts l := rfl
  have hbe : be3 (toBE 3 id ++ st :: encExts l) = id := be3_toBE id _ hid
  have hst : idx (e :: ms :: (toBE 3 id ++ st :: encExts l)) 5 = .ok st := by
    simp [idx, toBE, pure, Except.pure]
  have hd6 : (e :: ms :: (toBE 3 id ++ st :: encExts l)).drop 6 = encExts l := by simp [toBE]
  simp only [extByDtcInterpret, hms, if_true, bind_ok, guardPy_ok, pure_ok, optByte]
  refine ⟨e, idx_cons0 _ _, (), hcfg, (), (by simp only [List.length_cons, List.length_append, toBE_length]; simp; omega), some ms.toNat, ⟨ms, idx_cons1 _ _ _, rfl⟩, st, hst, size, by rw [hdrop2, hbe]; exact hsz, l, ?_, ?_⟩
  · rw [hd6]; simpa using ext_loop_roundtrip c.tol size l [] hl
  · rw [hdrop2, hbe]

/-! ### WWH-OBD records (sub-functions 42, 55) and fault-detection counters (14) -/

def WwhOk (r : DtcRec) : Prop :=
  r.id < 2 ^ 24 ∧ r.status < 256 ∧ r.severity < 256 ∧ (Severity.ofByte r.severity).toByte = r.severity ∧
  r.funit = none ∧ r.fault = none ∧ r.snaps = [] ∧ r.ext = []

theorem encWwh_length (r : DtcRec) : (encWwh r).length = 5 := by simp [encWwh]

theorem wwhLoop_cons (tol ign : Bool) (r : DtcRec) (tail : Bytes) (acc : List DtcRec) (hr : WwhOk r)
    (hnz : (allZero (encWwh r) && ign) = false) :
    wwhLoop tol ign (encWwh r ++ tail) acc = wwhLoop tol ign tail (acc ++ [r]) := by
  obtain ⟨hid, hst, hsev, hnorm, hfu, hf, hs, he⟩ := hr
  rw [wwhLoop]
  have hl := encWwh_length r
  have h0 : ¬ (encWwh r ++ tail).length = 0 := by simp [hl]
  have h1 : ¬ (encWwh r ++ tail).length < 5 := by simp [hl]
  have ht : (encWwh r ++ tail).take 5 = encWwh r := by
    rw [List.take_append_of_le_length (by omega), List.take_of_length_le (by omega)]
  have hdp : (encWwh r ++ tail).drop 5 = tail := by
    rw [List.drop_append_of_le_length (by omega), List.drop_of_length_le (by omega)]; simp
  have i0 : idx (encWwh r) 0 = .ok (UInt8.ofNat r.severity) := by simp [encWwh, idx, pure, Except.pure]
  have i4 : idx (encWwh r) 4 = .ok (UInt8.ofNat r.status) := by simp [encWwh, idx, pure, Except.pure]
  have hb : be3 ((encWwh r).drop 1) = r.id := by
    simp only [encWwh, List.cons_append, List.nil_append, List.drop_succ_cons, List.drop_zero]
    exact be3_toBE _ _ hid
  simp only [dif_neg h0, dif_neg h1, ht, hdp, hnz, Bool.false_eq_true, if_false, i0, i4, hb, bind, Except.bind,
    toNat_ofNat_lt hst, toNat_ofNat_lt hsev, hnorm]
  congr 2
  cases r; simp_all

def wwhNonZero (ign : Bool) (r : DtcRec) : Prop := (allZero (encWwh r) && ign) = false

theorem wwh_loop_roundtrip (tol ign : Bool) (rs : List DtcRec) (acc : List DtcRec) (hr : ∀ r ∈ rs, WwhOk r ∧ wwhNonZero ign r) :
    wwhLoop tol ign (encWwhs rs) acc = .ok (acc ++ rs) := by
  induction rs generalizing acc with
  | nil => rw [wwhLoop]; simp [encWwhs, pure, Except.pure]
  | cons r rest ih =>
    simp only [encWwhs]
    rw [wwhLoop_cons _ _ _ _ _ (hr r (by simp)).1 (hr r (by simp)).2, ih _ (fun x hx => hr x (by simp [hx]))]
    simp

def FaultOk (r : DtcRec) : Prop :=
  r.id < 2 ^ 24 ∧ (∃ f, r.fault = some f ∧ f < 256) ∧ r.status = 0 ∧ r.severity = 0 ∧ r.funit = none ∧ r.snaps = [] ∧ r.ext = []

theorem encFault_length (r : DtcRec) : (encFault r).length = 4 := by simp [encFault]

def faultNonZero (ign : Bool) (r : DtcRec) : Prop := (allZero (encFault r) && ign) = false

theorem fault_loop_roundtrip (tol ign : Bool) (rs : List DtcRec) (acc : List DtcRec) (hr : ∀ r ∈ rs, FaultOk r ∧ faultNonZero ign r) :
    g3Loop tol ign false (encFaults rs) acc = .ok (acc ++ rs) := by
  induction rs generalizing acc with
  | nil => rw [g3Loop]; simp [encFaults, pure, Except.pure]
  | cons r rest ih =>
    obtain ⟨⟨hid, ⟨f, hf, hf256⟩, hst, hsev, hfu, hs, he⟩, hnz⟩ := hr r (by simp)
    simp only [encFaults]
    rw [g3Loop]
    have hl := encFault_length r
    have h0 : ¬ (encFault r ++ encFaults rest).length = 0 := by simp [hl]
    have h1 : ¬ (encFault r ++ encFaults rest).length < 4 := by simp [hl]
    have ht : (encFault r ++ encFaults rest).take 4 = encFault r := by
      rw [List.take_append_of_le_length (by omega), List.take_of_length_le (by omega)]
    have hdp : (encFault r ++ encFaults rest).drop 4 = encFaults rest := by
      rw [List.drop_append_of_le_length (by omega), List.drop_of_length_le (by omega)]; simp
    have i3 : idx (encFault r) 3 = .ok (UInt8.ofNat f) := by simp [encFault, hf, idx, pure, Except.pure]
    have hb : be3 (encFault r) = r.id := by simp only [encFault]; exact be3_toBE _ _ hid
    unfold faultNonZero at hnz
    simp only [dif_neg h0, dif_neg h1, ht, hdp, hnz, Bool.false_eq_true, if_false, i3, hb, bind, Except.bind, toNat_ofNat_lt hf256]
    rw [ih _ (fun x hx => hr x (by simp [hx]))]
    have : ({ id := r.id, fault := some f } : DtcRec) = r := by cases r; simp_all
    rw [this]; simp

theorem fault_roundtrip (c : DtcCfg) (e : UInt8) (rs : List DtcRec) (hr : ∀ r ∈ rs, FaultOk r ∧ faultNonZero c.ign r) :
    g3Interpret c false (e :: encFaults rs) = .ok { sfEcho := e.toNat, count := rs.length, dtcs := rs } := by
  simp only [g3Interpret, bind_ok, pure_ok]
  refine ⟨e, idx_cons0 _ _, rs, ?_, rfl⟩
  simpa using fault_loop_roundtrip c.tol c.ign rs [] hr

/-- sub-function 0x55 (no severity availability mask) -/
theorem wwh_perm_roundtrip (c : DtcCfg) (e fg av fmt : UInt8) (rs : List DtcRec) (hfg : fg.toNat ≤ 0xFE) (hfmt : fmt.toNat = 4 ∨ fmt.toNat = 2)
    (hr : ∀ r ∈ rs, WwhOk r ∧ wwhNonZero c.ign r) :
    wwhInterpret c false (e :: fg :: av :: fmt :: encWwhs rs) =
      .ok { sfEcho := e.toNat, statusAvail := some av.toNat, sevAvail := none, format := some fmt.toNat, fgid := some fg.toNat, count := rs.length, dtcs := rs } := by
  simp only [wwhInterpret, Bool.false_eq_true, if_false, bind_ok, guardPy_ok, pure_ok, optByte]
  refine ⟨e, idx_cons0 _ _, (), by simp, fg, idx_cons1 _ _ _, av, by simp [idx, pure, Except.pure], none, rfl, fmt, by simp [idx, pure, Except.pure], (),
    by simp; omega, (), by rcases hfmt with h | h <;> simp [h], rs, ?_, rfl⟩
  simpa using wwh_loop_roundtrip c.tol c.ign rs [] hr

/-- sub-function 0x42 (with the severity availability mask, of which the library keeps the three severity bits) -/
theorem wwh_mask_roundtrip (c : DtcCfg) (e fg av sav fmt : UInt8) (rs : List DtcRec) (hfg : fg.toNat ≤ 0xFE) (hfmt : fmt.toNat = 4 ∨ fmt.toNat = 2)
    (hr : ∀ r ∈ rs, WwhOk r ∧ wwhNonZero c.ign r) :
    wwhInterpret c true (e :: fg :: av :: sav :: fmt :: encWwhs rs) =
      .ok { sfEcho := e.toNat, statusAvail := some av.toNat, sevAvail := some (Severity.ofByte sav.toNat).toByte, format := some fmt.toNat,
            fgid := some fg.toNat, count := rs.length, dtcs := rs } := by
  simp only [wwhInterpret, if_true, bind_ok, guardPy_ok, pure_ok, optByte]
  refine ⟨e, idx_cons0 _ _, (), by simp, fg, idx_cons1 _ _ _, av, by simp [idx, pure, Except.pure], some sav.toNat, ⟨sav, by simp [idx, pure, Except.pure], rfl⟩,
    fmt, by simp [idx, pure, Except.pure], (), by simp; omega, (), by rcases hfmt with h | h <;> simp [h], rs, ?_, rfl⟩
  simpa using wwh_loop_roundtrip c.tol c.ign rs [] hr

/-! ### snapshot records (sub-functions 04, 18: by DTC number; 05: by record number) -/

/-- one DataIdentifier of a snapshot record: the identifier on `k` bytes, then its data -/
def encSnapDid (k : Nat) (s : Snap) : Bytes := toBE k (s.did.getD 0) ++ s.raw

def encSnapDids (k : Nat) : List Snap → Bytes
  | [] => []
  | s :: rest => encSnapDid k s ++ encSnapDids k rest

/-- a snapshot entry as the parser builds it: record number `rec`, an identifier that fits `k` bytes and whose configured codec has the length of the data -/
def SnapOk (cfg : Option DidCfg) (k rec : Nat) (s : Snap) : Prop :=
  s.record = rec ∧ ∃ d, s.did = some d ∧ d < 256 ^ k ∧ ∃ c, checkDidConfig cfg [d] = .ok c ∧ fetchCodec c d = .ok (some s.raw.length)

theorem snapDids_roundtrip (cfg : Option DidCfg) (k rec : Nat) (l : List Snap) (tail : Bytes) (acc : List Snap) (h : ∀ s ∈ l, SnapOk cfg k rec s) :
    snapDids cfg k rec l.length (encSnapDids k l ++ tail) acc = .ok (acc ++ l, tail) := by
  induction l generalizing acc with
  | nil => simp [snapDids, encSnapDids, pure, Except.pure]
  | cons s rest ih =>
    obtain ⟨hrec, d, hd, hlt, c, hc, hf⟩ := h s (by simp)
    have hlen : ¬ (encSnapDids k (s :: rest) ++ tail).length < k := by simp [encSnapDids, encSnapDid]
    have htake : (encSnapDids k (s :: rest) ++ tail).take k = toBE k d := by
      simp only [encSnapDids, encSnapDid, hd, Option.getD_some, List.append_assoc]
      rw [List.take_append_of_le_length (by simp)]; exact List.take_of_length_le (by simp)
    have hdrop : (encSnapDids k (s :: rest) ++ tail).drop k = s.raw ++ (encSnapDids k rest ++ tail) := by
      simp only [encSnapDids, encSnapDid, hd, Option.getD_some, List.append_assoc]
      rw [List.drop_append_of_le_length (by simp)]; simp [List.drop_of_length_le]
    simp only [List.length_cons, snapDids, bind_ok, guardPy_ok]
    refine ⟨(), by simpa using hlen, c, by rw [htake, fromBE_toBE_of_lt hlt]; exact hc, some s.raw.length, by rw [htake, fromBE_toBE_of_lt hlt]; exact hf, ?_⟩
    simp only [hdrop, htake, fromBE_toBE_of_lt hlt]
    have h1 : ¬ (s.raw ++ (encSnapDids k rest ++ tail)).length < s.raw.length := by simp
    rw [if_neg h1]
    have h2 : (s.raw ++ (encSnapDids k rest ++ tail)).take s.raw.length = s.raw := by simp
    have h3 : (s.raw ++ (encSnapDids k rest ++ tail)).drop s.raw.length = encSnapDids k rest ++ tail := by simp
    rw [h2, h3, ih _ (fun x hx => h x (by simp [hx]))]
    have : ({ record := rec, did := some d, raw := s.raw } : Snap) = s := by cases s; simp_all
    rw [this]; simp

/-- snapshot records of one DTC: record number, number of identifiers, the identifiers -/
def encSnapGroups (k : Nat) : List (Nat × List Snap) → Bytes
  | [] => []
  | (rec, l) :: rest => [UInt8.ofNat rec, UInt8.ofNat l.length] ++ encSnapDids k l ++ encSnapGroups k rest

def GroupOk (c : DtcCfg) (g : Nat × List Snap) : Prop :=
  g.1 < 256 ∧ 1 ≤ g.2.length ∧ g.2.length < 256 ∧ ∀ s ∈ g.2, SnapOk c.dids c.didSize g.1 s

theorem encSnapDids_length_ge (k : Nat) (l : List Snap) (h : 1 ≤ l.length) : k ≤ (encSnapDids k l).length := by
  cases l with
  | nil => simp at h
  | cons s rest => simp [encSnapDids, encSnapDid]

theorem allZero_cons_ne {b : UInt8} {l : Bytes} (h : b ≠ 0) (a : UInt8) : allZero (a :: b :: l) = false := by
  simp [allZero, h]

theorem snapByDtc_loop_roundtrip (c : DtcCfg) (gs : List (Nat × List Snap)) (acc : List Snap) (h : ∀ g ∈ gs, GroupOk c g) :
    snapByDtcLoop c (encSnapGroups c.didSize gs) acc = .ok (acc ++ (gs.map (·.2)).flatten) := by
  induction gs generalizing acc with
  | nil => rw [snapByDtcLoop]; simp [encSnapGroups, pure, Except.pure]
  | cons g rest ih =>
    obtain ⟨rec, l⟩ := g
    obtain ⟨hr, hl1, hl2, hs⟩ := h (rec, l) (by simp)
    simp only at hr hl1 hl2 hs
    have hn0 : UInt8.ofNat l.length ≠ 0 := by
      intro h0
      have := congrArg UInt8.toNat h0
      rw [toNat_ofNat_lt hl2] at this
      have : l.length = 0 := this
      omega
    rw [snapByDtcLoop]
    have hlen0 : ¬ (encSnapGroups c.didSize ((rec, l) :: rest)).length = 0 := by simp [encSnapGroups]
    have hz : (c.tol && allZero (encSnapGroups c.didSize ((rec, l) :: rest))) = false := by
      simp only [encSnapGroups, List.cons_append, List.nil_append, List.append_assoc]
      rw [allZero_cons_ne hn0]; simp
    have hlen2 : ¬ (encSnapGroups c.didSize ((rec, l) :: rest)).length < 2 := by simp [encSnapGroups]
    rw [dif_neg hlen0]
    simp only [hz, Bool.false_eq_true, if_false]
    rw [dif_neg hlen2]
    have i0 : idx (encSnapGroups c.didSize ((rec, l) :: rest)) 0 = .ok (UInt8.ofNat rec) := by simp [encSnapGroups, idx, pure, Except.pure]
    have i1 : idx (encSnapGroups c.didSize ((rec, l) :: rest)) 1 = .ok (UInt8.ofNat l.length) := by simp [encSnapGroups, idx, pure, Except.pure]
    have hnz : (l.length == 0) = false := by simpa using (show l.length ≠ 0 by omega)
    have hge := encSnapDids_length_ge c.didSize l hl1
    have hlenk : ¬ (encSnapGroups c.didSize ((rec, l) :: rest)).length < 2 + c.didSize := by
      simp only [encSnapGroups, List.cons_append, List.nil_append, List.append_assoc, List.length_cons, List.length_append]; omega
    have hdrop : (encSnapGroups c.didSize ((rec, l) :: rest)).drop 2 = encSnapDids c.didSize l ++ encSnapGroups c.didSize rest := by
      simp [encSnapGroups]
    simp only [i0, i1, bind, Except.bind, toNat_ofNat_lt hr, toNat_ofNat_lt hl2, hnz, Bool.false_eq_true, if_false, hlenk, hdrop,
      snapDids_roundtrip c.dids c.didSize rec l (encSnapGroups c.didSize rest) acc hs]
    have hshort : (encSnapGroups c.didSize rest).length < (encSnapGroups c.didSize ((rec, l) :: rest)).length := by
      simp only [encSnapGroups, List.cons_append, List.nil_append, List.append_assoc, List.length_cons, List.length_append]; omega
    rw [if_pos hshort, ih _ (fun g hg => h g (by simp [hg]))]
    simp

theorem idx_cons0' (b : UInt8) (l : Bytes) : idx (b :: l) 0 = .ok b := by simp [idx, pure, Except.pure]
theorem idx_cons1' (a b : UInt8) (l : Bytes) : idx (a :: b :: l) 1 = .ok b := by simp [idx, pure, Except.pure]

/-- **snapshot by DTC number (0x04)**: any number of records, each with any number of identifiers, comes back as encoded -/
theorem snapByDtc_roundtrip (c : DtcCfg) (sf : Nat) (e st : UInt8) (id : Nat) (gs : List (Nat × List Snap)) (hms : hasMemSel sf = false)
    (hid : id < 2 ^ 24) (hk : 1 ≤ c.didSize ∧ c.didSize ≤ 8) (h : ∀ g ∈ gs, GroupOk c g) :
    snapByDtcInterpret c sf (e :: (toBE 3 id ++ st :: encSnapGroups c.didSize gs)) =
      .ok { sfEcho := e.toNat, count := 1, dtcs := [{ id := id, status := st.toNat, snaps := (gs.map (·.2)).flatten }] } := by
  have hdrop1 : (e :: (toBE 3 id ++ st :: encSnapGroups c.didSize gs)).drop 1 = toBE 3 id ++ st :: encSnapGroups c.didSize gs := rfl
  have hbe : be3 (toBE 3 id ++ st :: encSnapGroups c.didSize gs) = id := be3_toBE id _ hid
  have hst : idx (e :: (toBE 3 id ++ st :: encSnapGroups c.didSize gs)) 4 = .ok st := by simp [idx, toBE, pure, Except.pure]
  have hd5 : (e :: (toBE 3 id ++ st :: encSnapGroups c.didSize gs)).drop 5 = encSnapGroups c.didSize gs := by simp [toBE]
  simp only [snapByDtcInterpret, hms, Bool.false_eq_true, if_false, bind_ok, guardPy_ok, pure_ok, optByte]
  refine ⟨e, idx_cons0' _ _, (), (by simp only [List.length_cons, List.length_append, toBE_length]; simp; omega), none, rfl, st, hst, (),
    (by simp; omega), (gs.map (·.2)).flatten, ?_, ?_⟩
  · rw [hd5]; simpa using snapByDtc_loop_roundtrip c gs [] h
  · rw [hdrop1, hbe]

/-- **user-defined-memory snapshot by DTC number (0x18)**: the same with the MemorySelection echo -/
theorem snapByDtc_roundtrip_memsel (c : DtcCfg) (sf : Nat) (e ms st : UInt8) (id : Nat) (gs : List (Nat × List Snap)) (hms : hasMemSel sf = true)
    (hid : id < 2 ^ 24) (hk : 1 ≤ c.didSize ∧ c.didSize ≤ 8) (h : ∀ g ∈ gs, GroupOk c g) :
    snapByDtcInterpret c sf (e :: ms :: (toBE 3 id ++ st :: encSnapGroups c.didSize gs)) =
      .ok { sfEcho := e.toNat, memSel := some ms.toNat, count := 1, dtcs := [{ id := id, status := st.toNat, snaps := (gs.map (·.2)).flatten }] } := by
  have hdrop2 : (e :: ms :: (toBE 3 id ++ st :: encSnapGroups c.didSize gs)).drop 2 = toBE 3 id ++ st :: encSnapGroups c.didSize gs := rfl
  have hbe : be3 (toBE 3 id ++ st :: encSnapGroups c.didSize gs) = id := be3_toBE id _ hid
  have hst : idx (e :: ms :: (toBE 3 id ++ st :: encSnapGroups c.didSize gs)) 5 = .ok st := by simp [idx, toBE, pure, Except.pure]
  have hd6 : (e :: ms :: (toBE 3 id ++ st :: encSnapGroups c.didSize gs)).drop 6 = encSnapGroups c.didSize gs := by simp [toBE]
  simp only [snapByDtcInterpret, hms, if_true, bind_ok, guardPy_ok, pure_ok, optByte]
  refine ⟨e, idx_cons0' _ _, (), (by simp only [List.length_cons, List.length_append, toBE_length]; simp; omega), some ms.toNat, ⟨ms, idx_cons1' _ _ _, rfl⟩, st, hst, (),
    (by simp; omega), (gs.map (·.2)).flatten, ?_, ?_⟩
  · rw [hd6]; simpa using snapByDtc_loop_roundtrip c gs [] h
  · rw [hdrop2, hbe]

/-- one record of sub-function 0x05: record number, DTC, status, number of identifiers, the identifiers -/
def encSnapRec (k : Nat) (p : Nat × DtcRec) : Bytes :=
  [UInt8.ofNat p.1] ++ toBE 3 p.2.id ++ [UInt8.ofNat p.2.status, UInt8.ofNat p.2.snaps.length] ++ encSnapDids k p.2.snaps

def encSnapRecs (k : Nat) : List (Nat × DtcRec) → Bytes
  | [] => []
  | p :: rest => encSnapRec k p ++ encSnapRecs k rest

def SnapRecOk (c : DtcCfg) (p : Nat × DtcRec) : Prop :=
  p.1 < 256 ∧ p.2.id < 2 ^ 24 ∧ p.2.status < 256 ∧ 1 ≤ p.2.snaps.length ∧ p.2.snaps.length < 256 ∧
  (∀ s ∈ p.2.snaps, SnapOk c.dids c.didSize p.1 s) ∧ (c.tol = false ∨ allZero (encSnapDids c.didSize p.2.snaps) = false) ∧
  p.2.severity = 0 ∧ p.2.funit = none ∧ p.2.fault = none ∧ p.2.ext = []

theorem snapByRecord_loop_roundtrip (c : DtcCfg) (ps : List (Nat × DtcRec)) (acc : List DtcRec) (h : ∀ p ∈ ps, SnapRecOk c p) :
    snapByRecordLoop c (encSnapRecs c.didSize ps) acc = .ok (acc ++ ps.map (·.2)) := by
  induction ps generalizing acc with
  | nil => rw [snapByRecordLoop]; simp [encSnapRecs, pure, Except.pure]
  | cons p rest ih =>
    obtain ⟨rec, r⟩ := p
    obtain ⟨hr, hid, hst, hl1, hl2, hs, hnz, hsev, hfu, hfa, hex⟩ := h (rec, r) (by simp)
    simp only at hr hid hst hl1 hl2 hs hnz hsev hfu hfa hex
    have hn0 : UInt8.ofNat r.snaps.length ≠ 0 := by
      intro h0
      have := congrArg UInt8.toNat h0
      rw [toNat_ofNat_lt hl2] at this
      have : r.snaps.length = 0 := this
      omega
    -- the encoded record, spelled out
    have henc : encSnapRecs c.didSize ((rec, r) :: rest) =
        UInt8.ofNat rec :: (toBE 3 r.id ++ UInt8.ofNat r.status :: UInt8.ofNat r.snaps.length :: (encSnapDids c.didSize r.snaps ++ encSnapRecs c.didSize rest)) := by
      simp [encSnapRecs, encSnapRec]
    have hge := encSnapDids_length_ge c.didSize r.snaps hl1
    rw [henc, snapByRecordLoop]
    have t3 : (toBE 3 r.id).length = 3 := by simp
    have hlen0 : ¬ (UInt8.ofNat rec :: (toBE 3 r.id ++ UInt8.ofNat r.status :: UInt8.ofNat r.snaps.length :: (encSnapDids c.didSize r.snaps ++ encSnapRecs c.didSize rest))).length = 0 := by simp
    have haz : allZero (UInt8.ofNat rec :: (toBE 3 r.id ++ UInt8.ofNat r.status :: UInt8.ofNat r.snaps.length :: (encSnapDids c.didSize r.snaps ++ encSnapRecs c.didSize rest))) = false := by
      simp [allZero, hn0]
    have haz1 : allZero ((UInt8.ofNat rec :: (toBE 3 r.id ++ UInt8.ofNat r.status :: UInt8.ofNat r.snaps.length :: (encSnapDids c.didSize r.snaps ++ encSnapRecs c.didSize rest))).drop 1) = false := by
      simp [allZero, hn0]
    have hlen1 : ((UInt8.ofNat rec :: (toBE 3 r.id ++ UInt8.ofNat r.status :: UInt8.ofNat r.snaps.length :: (encSnapDids c.didSize r.snaps ++ encSnapRecs c.didSize rest))).length == 1) = false := by
      simp
    rw [dif_neg hlen0]
    simp only [haz, Bool.false_and, Bool.false_eq_true, if_false, hlen1, haz1, Bool.and_false, Bool.or_self]
    rw [dif_neg (by simp only [List.length_cons, List.length_append, t3]; omega), dif_neg (by simp only [List.length_cons, List.length_append, t3]; omega)]
    have i0 : idx (UInt8.ofNat rec :: (toBE 3 r.id ++ UInt8.ofNat r.status :: UInt8.ofNat r.snaps.length :: (encSnapDids c.didSize r.snaps ++ encSnapRecs c.didSize rest))) 0 = .ok (UInt8.ofNat rec) := by
      simp [idx, pure, Except.pure]
    have i4 : idx (UInt8.ofNat rec :: (toBE 3 r.id ++ UInt8.ofNat r.status :: UInt8.ofNat r.snaps.length :: (encSnapDids c.didSize r.snaps ++ encSnapRecs c.didSize rest))) 4 = .ok (UInt8.ofNat r.status) := by
      simp [idx, toBE, pure, Except.pure]
    have i5 : idx (UInt8.ofNat rec :: (toBE 3 r.id ++ UInt8.ofNat r.status :: UInt8.ofNat r.snaps.length :: (encSnapDids c.didSize r.snaps ++ encSnapRecs c.didSize rest))) 5 = .ok (UInt8.ofNat r.snaps.length) := by
      simp [idx, toBE, pure, Except.pure]
    have hd6 : (UInt8.ofNat rec :: (toBE 3 r.id ++ UInt8.ofNat r.status :: UInt8.ofNat r.snaps.length :: (encSnapDids c.didSize r.snaps ++ encSnapRecs c.didSize rest))).drop 6 =
        encSnapDids c.didSize r.snaps ++ encSnapRecs c.didSize rest := by simp [toBE]
    have hd1 : be3 ((UInt8.ofNat rec :: (toBE 3 r.id ++ UInt8.ofNat r.status :: UInt8.ofNat r.snaps.length :: (encSnapDids c.didSize r.snaps ++ encSnapRecs c.didSize rest))).drop 1) = r.id := by
      simp only [List.drop_succ_cons, List.drop_zero]; exact be3_toBE _ _ hid
    have hnz' : (r.snaps.length == 0) = false := by simpa using (show r.snaps.length ≠ 0 by omega)
    have hbody : ¬ (encSnapDids c.didSize r.snaps ++ encSnapRecs c.didSize rest).length < c.didSize := by simp; omega
    have hbz : (c.tol && allZero (encSnapDids c.didSize r.snaps ++ encSnapRecs c.didSize rest)) = false := by
      rcases hnz with h | h
      · simp [h]
      · rw [allZero_append, h]; simp
    simp only [i0, i4, i5, bind, Except.bind, toNat_ofNat_lt hr, toNat_ofNat_lt hst, toNat_ofNat_lt hl2, hnz', Bool.false_eq_true, if_false, hd6, hbody, hbz,
      snapDids_roundtrip c.dids c.didSize rec r.snaps (encSnapRecs c.didSize rest) [] hs, hd1]
    have hshort : (encSnapRecs c.didSize rest).length <
        (UInt8.ofNat rec :: (toBE 3 r.id ++ UInt8.ofNat r.status :: UInt8.ofNat r.snaps.length :: (encSnapDids c.didSize r.snaps ++ encSnapRecs c.didSize rest))).length := by
      simp only [List.length_cons, List.length_append]; omega
    rw [if_pos hshort, ih _ (fun p hp => h p (by simp [hp]))]
    have : ({ id := r.id, status := r.status, snaps := [] ++ r.snaps } : DtcRec) = r := by cases r; simp_all
    rw [this]; simp

/-- **snapshot by record number (0x05)**: any number of DTC records, each with any number of identifiers -/
theorem snapByRecord_roundtrip (c : DtcCfg) (e : UInt8) (ps : List (Nat × DtcRec)) (hk : 1 ≤ c.didSize ∧ c.didSize ≤ 8) (hne : ps ≠ [])
    (h : ∀ p ∈ ps, SnapRecOk c p) :
    snapByRecordInterpret c (e :: encSnapRecs c.didSize ps) = .ok { sfEcho := e.toNat, count := ps.length, dtcs := ps.map (·.2) } := by
  simp only [snapByRecordInterpret, bind_ok, guardPy_ok, pure_ok]
  have hlen : 1 ≤ (encSnapRecs c.didSize ps).length := by
    cases ps with
    | nil => exact absurd rfl hne
    | cons p rest => simp [encSnapRecs, encSnapRec]
  refine ⟨e, idx_cons0' _ _, (), (by simp; omega), (), (by simp; omega), ps.map (·.2), ?_, by simp⟩
  simpa using snapByRecord_loop_roundtrip c ps [] h

/-! ### extended data by record number (sub-function 16): one record per DTC -/

/-- DTC, status, the data of the requested record -/
def encExtRec (r : DtcRec) : Bytes := toBE 3 r.id ++ [UInt8.ofNat r.status] ++ (r.ext.head?.map (·.2)).getD []

def encExtRecs : List DtcRec → Bytes
  | [] => []
  | r :: rest => encExtRec r ++ encExtRecs rest

def ExtRecOk (c : DtcCfg) (rec : Nat) (r : DtcRec) : Prop :=
  r.id < 2 ^ 24 ∧ r.status < 256 ∧ (∃ data, r.ext = [(rec, data)] ∧ extSizeFor c.ext r.id = .ok data.length) ∧
  allZero (encExtRec r) = false ∧ r.severity = 0 ∧ r.funit = none ∧ r.fault = none ∧ r.snaps = []

theorem extByRecord_loop_roundtrip (c : DtcCfg) (rec : Nat) (rs : List DtcRec) (seen : List Nat) (acc : List DtcRec)
    (h : ∀ r ∈ rs, ExtRecOk c rec r) (hnd : (seen ++ rs.map (·.id)).Nodup) :
    extByRecordLoop c rec (encExtRecs rs) seen acc = .ok (acc ++ rs) := by
  induction rs generalizing seen acc with
  | nil => rw [extByRecordLoop]; simp [encExtRecs, pure, Except.pure]
  | cons r rest ih =>
    obtain ⟨hid, hst, ⟨data, hext, hsz⟩, hnz, hsev, hfu, hfa, hsn⟩ := h r (by simp)
    have henc : encExtRecs (r :: rest) = toBE 3 r.id ++ (UInt8.ofNat r.status :: (data ++ encExtRecs rest)) := by
      simp [encExtRecs, encExtRec, hext]
    have hrec : encExtRec r = toBE 3 r.id ++ (UInt8.ofNat r.status :: data) := by simp [encExtRec, hext]
    have haz : allZero (encExtRecs (r :: rest)) = false := by
      have : encExtRecs (r :: rest) = encExtRec r ++ encExtRecs rest := rfl
      rw [this, allZero_append, hnz]; rfl
    rw [extByRecordLoop]
    have hlen0 : ¬ (encExtRecs (r :: rest)).length = 0 := by rw [henc]; simp
    rw [dif_neg hlen0]
    simp only [haz, Bool.false_and, Bool.false_eq_true, if_false]
    have hlen4 : ¬ (encExtRecs (r :: rest)).length < 4 := by rw [henc]; simp; omega
    rw [dif_neg hlen4]
    have hbe : be3 (encExtRecs (r :: rest)) = r.id := by rw [henc]; exact be3_toBE _ _ hid
    have hnot : seen.contains r.id = false := by
      rw [List.map_cons] at hnd
      have := (List.nodup_append.1 hnd).2.2
      cases hc : seen.contains r.id with
      | false => rfl
      | true =>
        exfalso
        rw [List.contains_iff_mem] at hc
        exact this r.id hc r.id (by simp) rfl
    have i3 : idx (encExtRecs (r :: rest)) 3 = .ok (UInt8.ofNat r.status) := by rw [henc]; simp [idx, toBE, pure, Except.pure]
    have hd4 : (encExtRecs (r :: rest)).drop 4 = data ++ encExtRecs rest := by rw [henc]; simp [toBE]
    simp only [hbe, hnot, Bool.false_eq_true, if_false, i3, hsz, bind, Except.bind, hd4, toNat_ofNat_lt hst]
    have h1 : ¬ (data ++ encExtRecs rest).length < data.length := by simp
    rw [if_neg h1]
    have h2 : (data ++ encExtRecs rest).take data.length = data := by simp
    have h3 : (data ++ encExtRecs rest).drop data.length = encExtRecs rest := by simp
    rw [h2, h3]
    have hnd' : ((r.id :: seen) ++ rest.map (·.id)).Nodup := by
      rw [List.map_cons] at hnd
      obtain ⟨n1, n2, n3⟩ := List.nodup_append.1 hnd
      obtain ⟨m1, m2⟩ := List.nodup_cons.1 n2
      rw [List.cons_append, List.nodup_cons]
      refine ⟨?_, List.nodup_append.2 ⟨n1, m2, fun a ha b hb => n3 a ha b (List.mem_cons_of_mem _ hb)⟩⟩
      intro hm
      rcases List.mem_append.1 hm with hm | hm
      · exact n3 r.id hm r.id (by simp) rfl
      · exact m1 hm
    rw [ih _ _ (fun x hx => h x (by simp [hx])) hnd']
    have : ({ id := r.id, status := r.status, ext := [(rec, data)] } : DtcRec) = r := by cases r; simp_all
    rw [this]; simp

/-- **extended data by record number (0x16)**: any number of DTCs (pairwise distinct), each with the data of the requested record -/
theorem extByRecord_roundtrip (c : DtcCfg) (e : UInt8) (rec : Nat) (rs : List DtcRec) (hrec : rec ≤ 0xEF) (hcfg : checkExtSize c.ext = .ok ())
    (h : ∀ r ∈ rs, ExtRecOk c rec r) (hnd : (rs.map (·.id)).Nodup) :
    extByRecordInterpret c (e :: UInt8.ofNat rec :: encExtRecs rs) = .ok { sfEcho := e.toNat, count := rs.length, dtcs := rs } := by
  simp only [extByRecordInterpret, bind_ok, guardPy_ok, pure_ok]
  have hr : (UInt8.ofNat rec).toNat = rec := toNat_ofNat_lt (by omega)
  refine ⟨e, idx_cons0' _ _, (), hcfg, (), by simp, UInt8.ofNat rec, idx_cons1' _ _ _, (), (by rw [hr]; simp; omega), rs, ?_, rfl⟩
  rw [hr]
  simpa using extByRecord_loop_roundtrip c rec rs [] [] h (by simpa using hnd)

/-! ### RequestFileTransfer: every mode of operation -/

theorem readUIntAt_mid (pre rest : Bytes) (n v : Nat) (hv : v < 256 ^ n) : readUIntAt (pre ++ toBE n v ++ rest) pre.length n = .ok v := by
  unfold readUIntAt
  have hle : pre.length + n ≤ (pre ++ toBE n v ++ rest).length := by simp
  rw [if_pos hle]
  have : ((pre ++ toBE n v ++ rest).drop pre.length).take n = toBE n v := by
    rw [List.append_assoc, List.drop_left', List.take_append_of_le_length (by simp)]
    exact List.take_of_length_le (by simp)
    rfl
  rw [this, fromBE_toBE_of_lt hv]; rfl

/-- `[moop, lw] ++ maxNumberOfBlockLength on lw bytes ++ [dataFormatIdentifier]` -/
def encRftHead (moop lw ml dfi : Nat) : Bytes := [UInt8.ofNat moop, UInt8.ofNat lw] ++ toBE lw ml ++ [UInt8.ofNat dfi]

theorem rftMaxLen_enc (moop lw ml : Nat) (tail : Bytes) (hm : rftHasLfid moop = true) (hlw : 1 ≤ lw ∧ lw ≤ 8) (hml : ml < 256 ^ lw) (m : UInt8) :
    rftMaxLen moop (m :: UInt8.ofNat lw :: (toBE lw ml ++ tail)) = .ok (some ml, 2 + lw) := by
  have hl : (UInt8.ofNat lw).toNat = lw := toNat_ofNat_lt (by omega)
  simp only [rftMaxLen, hm, if_true, bind_ok, guardPy_ok, pure_ok]
  refine ⟨(), by simp, UInt8.ofNat lw, by simp [idx, pure, Except.pure], (), by rw [hl]; simp; omega, (), by rw [hl]; simp; omega, (), (by rw [hl]; simp; omega), ml, ?_, by rw [hl]⟩
  rw [hl]
  have := readUIntAt_mid [m, UInt8.ofNat lw] tail lw ml hml
  simpa using this

/-- AddFile / ReplaceFile / ReadFile-less modes with only the head (1 = AddFile, 3 = ReplaceFile): max length and data format echo -/
theorem rft_roundtrip_head (moop lw ml dfi : Nat) (tol : Bool) (hm : moop = 1 ∨ moop = 3) (hlw : 1 ≤ lw ∧ lw ≤ 8) (hml : ml < 256 ^ lw) (hd : dfi < 256) :
    rftInterpret tol (encRftHead moop lw ml dfi) = .ok (.rft moop (some ml) (some dfi) none none none) := by
  have hmo : (UInt8.ofNat moop).toNat = moop := toNat_ofNat_lt (by omega)
  have hdf : (UInt8.ofNat dfi).toNat = dfi := toNat_ofNat_lt hd
  have hlf : rftHasLfid moop = true := by rcases hm with h | h <;> subst h <;> decide
  have henc : encRftHead moop lw ml dfi = UInt8.ofNat moop :: UInt8.ofNat lw :: (toBE lw ml ++ [UInt8.ofNat dfi]) := by simp [encRftHead]
  have hidx : idx (encRftHead moop lw ml dfi) (2 + lw) = .ok (UInt8.ofNat dfi) := by
    rw [henc]
    have : (2 + lw) = ([UInt8.ofNat moop, UInt8.ofNat lw] ++ toBE lw ml).length := by simp; omega
    simp only [idx]
    rw [show UInt8.ofNat moop :: UInt8.ofNat lw :: (toBE lw ml ++ [UInt8.ofNat dfi]) = ([UInt8.ofNat moop, UInt8.ofNat lw] ++ toBE lw ml) ++ [UInt8.ofNat dfi] by simp, this,
      List.getElem?_append_right (Nat.le_refl _)]
    simp [pure, Except.pure]
  simp only [rftInterpret, bind_ok, guardPy_ok, pure_ok]
  refine ⟨(), by simp [encRftHead], UInt8.ofNat moop, by simp [encRftHead, idx, pure, Except.pure], (some ml, 2 + lw), ?_, (some dfi, 2 + lw + 1), ?_, (none, none, 2 + lw + 1), ?_,
    (none, 2 + lw + 1), ?_, (), ?_, ?_⟩
  · rw [hmo, henc]; exact rftMaxLen_enc moop lw ml _ hlf hlw hml _
  · rw [hmo]
    simp only [rftDfiEcho, hlf, if_true, bind_ok, guardPy_ok, pure_ok]
    refine ⟨(), by simp [encRftHead]; omega, UInt8.ofNat dfi, hidx, (), ?_, by rw [hdf]⟩
    have : (moop == 5) = false := by rcases hm with h | h <;> subst h <;> decide
    simp [this]
  · rw [hmo]
    have : (moop == 4 || moop == 5) = false := by rcases hm with h | h <;> subst h <;> decide
    simp [rftSizes, this, pure, Except.pure]
  · rw [hmo]
    have : (moop == 6) = false := by rcases hm with h | h <;> subst h <;> decide
    simp [rftFilePos, this, pure, Except.pure]
  · simp [encRftHead]; omega
  · rw [hmo]
    have h4 : (moop == 4) = false := by rcases hm with h | h <;> subst h <;> decide
    have h5 : (moop == 5) = false := by rcases hm with h | h <;> subst h <;> decide
    simp [h4, h5]

theorem rft_roundtrip_delete (tol : Bool) : rftInterpret tol [2] = .ok (.rft 2 none none none none none) := by cases tol <;> decide

theorem idx_at_append (pre : Bytes) (b : UInt8) (rest : Bytes) : idx (pre ++ b :: rest) pre.length = .ok b := by
  simp [idx, pure, Except.pure]

theorem rft_head_split (moop lw ml dfi : Nat) (tail : Bytes) :
    encRftHead moop lw ml dfi ++ tail = UInt8.ofNat moop :: UInt8.ofNat lw :: (toBE lw ml ++ (UInt8.ofNat dfi :: tail)) := by simp [encRftHead]

theorem rft_head_pre (moop lw ml dfi : Nat) (tail : Bytes) :
    encRftHead moop lw ml dfi ++ tail = ([UInt8.ofNat moop, UInt8.ofNat lw] ++ toBE lw ml) ++ (UInt8.ofNat dfi :: tail) := by simp [encRftHead]

theorem rftDfi_enc (moop lw ml dfi : Nat) (tail : Bytes) (hlf : rftHasLfid moop = true) (hd : dfi < 256) (h5 : moop = 5 → dfi = 0) :
    rftDfiEcho moop (encRftHead moop lw ml dfi ++ tail) (2 + lw) = .ok (some dfi, 2 + lw + 1) := by
  have hdf : (UInt8.ofNat dfi).toNat = dfi := toNat_ofNat_lt hd
  have hidx : idx (encRftHead moop lw ml dfi ++ tail) (2 + lw) = .ok (UInt8.ofNat dfi) := by
    rw [rft_head_pre]
    have : 2 + lw = ([UInt8.ofNat moop, UInt8.ofNat lw] ++ toBE lw ml).length := by simp; omega
    rw [this]; exact idx_at_append _ _ _
  simp only [rftDfiEcho, hlf, if_true, bind_ok, guardPy_ok, pure_ok]
  refine ⟨(), by simp [encRftHead]; omega, UInt8.ofNat dfi, hidx, (), ?_, by rw [hdf]⟩
  by_cases hm5 : moop = 5
  · simp [hm5, hdf, h5 hm5]
  · have : (moop == 5) = false := by simpa using hm5
    simp [this]

/-- ResumeFile (6): head, then the 8-byte file position -/
theorem rft_roundtrip_resume (lw ml dfi fp : Nat) (tol : Bool) (hlw : 1 ≤ lw ∧ lw ≤ 8) (hml : ml < 256 ^ lw) (hd : dfi < 256) (hfp : fp < 256 ^ 8) :
    rftInterpret tol (encRftHead 6 lw ml dfi ++ toBE 8 fp) = .ok (.rft 6 (some ml) (some dfi) none none (some fp)) := by
  have hlf : rftHasLfid 6 = true := by decide
  have h6 : (6 : UInt8).toNat = 6 := rfl
  simp only [rftInterpret, bind_ok, guardPy_ok, pure_ok]
  refine ⟨(), by simp [encRftHead], 6, by simp [encRftHead, idx, pure, Except.pure], (some ml, 2 + lw), ?_, (some dfi, 2 + lw + 1), ?_, (none, none, 2 + lw + 1), ?_,
    (some fp, 2 + lw + 1 + 8), ?_, (), ?_, ?_⟩
  · rw [h6, rft_head_split]; exact rftMaxLen_enc 6 lw ml _ hlf hlw hml _
  · rw [h6]; exact rftDfi_enc 6 lw ml dfi _ hlf hd (by intro h; cases h)
  · rw [h6]; simp [rftSizes, pure, Except.pure]
  · rw [h6]
    simp only [rftFilePos, show ((6 : Nat) == 6) = true by decide, if_true, bind_ok, guardPy_ok, pure_ok]
    refine ⟨(), by simp [encRftHead]; omega, fp, ?_, rfl⟩
    have := readUIntAt_mid (encRftHead 6 lw ml dfi) [] 8 fp hfp
    rw [List.append_nil] at this
    have hl : (encRftHead 6 lw ml dfi).length = 2 + lw + 1 := by simp [encRftHead]; omega
    rw [hl] at this; exact this
  · simp [encRftHead]; omega
  · simp [h6]

/-- ReadDir (5): head with dataFormatIdentifier 0, then a 2-byte length and the directory-info length on that many bytes -/
theorem rft_roundtrip_readdir (lw ml sw di : Nat) (tol : Bool) (hlw : 1 ≤ lw ∧ lw ≤ 8) (hml : ml < 256 ^ lw) (hsw : 1 ≤ sw ∧ sw ≤ 8) (hdi : di < 256 ^ sw) :
    rftInterpret tol (encRftHead 5 lw ml 0 ++ (toBE 2 sw ++ toBE sw di)) = .ok (.rft 5 (some ml) (some 0) none (some di) none) := by
  have hlf : rftHasLfid 5 = true := by decide
  have hl : (encRftHead 5 lw ml 0).length = 2 + lw + 1 := by simp [encRftHead]; omega
  have h5 : (5 : UInt8).toNat = 5 := rfl
  simp only [rftInterpret, bind_ok, guardPy_ok, pure_ok]
  refine ⟨(), by simp [encRftHead], 5, by simp [encRftHead, idx, pure, Except.pure], (some ml, 2 + lw), ?_, (some 0, 2 + lw + 1), ?_, (some di, none, 2 + lw + 1 + 2 + sw), ?_,
    (none, 2 + lw + 1 + 2 + sw), ?_, (), ?_, ?_⟩
  · rw [h5, rft_head_split]; exact rftMaxLen_enc 5 lw ml _ hlf hlw hml _
  · rw [h5]; exact rftDfi_enc 5 lw ml 0 _ hlf (by decide) (fun _ => rfl)
  · rw [h5]
    simp only [rftSizes, show ((5 : Nat) == 4) = false by decide, show ((5 : Nat) == 5) = true by decide, Bool.or_true, if_true, Bool.false_eq_true, if_false,
      bind_ok, guardPy_ok, pure_ok]
    have hu : unpackBE 2 (((encRftHead 5 lw ml 0 ++ (toBE 2 sw ++ toBE sw di)).drop (2 + lw + 1)).take 2) = .ok sw := by
      rw [← hl, List.drop_left', List.take_append_of_le_length (by simp), List.take_of_length_le (by simp)]
      simp [unpackBE, fromBE_toBE_of_lt (show sw < 256 ^ 2 by omega), pure, Except.pure]
      rfl
    refine ⟨(), (by simp [hl]), sw, hu, (), (by simp; omega), (), (by simp; omega), (), (by simp [hl]; omega), di, ?_, rfl⟩
    have := readUIntAt_mid (encRftHead 5 lw ml 0 ++ toBE 2 sw) [] sw di hdi
    simp only [List.append_nil, List.length_append, hl, toBE_length, List.append_assoc] at this
    exact this
  · rw [h5]; simp [rftFilePos, pure, Except.pure]
  · simp [hl]; omega
  · simp [h5]

/-- ReadFile (4): head, a 2-byte length, then uncompressed and compressed size on that many bytes each -/
theorem rft_roundtrip_readfile (lw ml dfi sw u cz : Nat) (tol : Bool) (hlw : 1 ≤ lw ∧ lw ≤ 8) (hml : ml < 256 ^ lw) (hd : dfi < 256)
    (hsw : 1 ≤ sw ∧ sw ≤ 8) (hu' : u < 256 ^ sw) (hc : cz < 256 ^ sw) :
    rftInterpret tol (encRftHead 4 lw ml dfi ++ (toBE 2 sw ++ toBE sw u ++ toBE sw cz)) = .ok (.rft 4 (some ml) (some dfi) (some (u, some cz)) none none) := by
  have hlf : rftHasLfid 4 = true := by decide
  have hl : (encRftHead 4 lw ml dfi).length = 2 + lw + 1 := by simp [encRftHead]; omega
  have h4 : (4 : UInt8).toNat = 4 := rfl
  simp only [rftInterpret, bind_ok, guardPy_ok, pure_ok]
  refine ⟨(), by simp [encRftHead], 4, by simp [encRftHead, idx, pure, Except.pure], (some ml, 2 + lw), ?_, (some dfi, 2 + lw + 1), ?_, (some u, some cz, 2 + lw + 1 + 2 + sw + sw), ?_,
    (none, 2 + lw + 1 + 2 + sw + sw), ?_, (), ?_, ?_⟩
  · rw [h4, rft_head_split]; exact rftMaxLen_enc 4 lw ml _ hlf hlw hml _
  · rw [h4]; exact rftDfi_enc 4 lw ml dfi _ hlf hd (by intro h; cases h)
  · rw [h4]
    simp only [rftSizes, show ((4 : Nat) == 4) = true by decide, Bool.true_or, if_true, bind_ok, guardPy_ok, pure_ok]
    have hu : unpackBE 2 (((encRftHead 4 lw ml dfi ++ (toBE 2 sw ++ toBE sw u ++ toBE sw cz)).drop (2 + lw + 1)).take 2) = .ok sw := by
      rw [← hl, List.drop_left', List.append_assoc, List.take_append_of_le_length (by simp), List.take_of_length_le (by simp)]
      simp [unpackBE, fromBE_toBE_of_lt (show sw < 256 ^ 2 by omega), pure, Except.pure]
      rfl
    refine ⟨(), (by simp [hl]), sw, hu, (), (by simp; omega), (), (by simp; omega), (), (by simp [hl]; omega), u, ?_, (), (by simp [hl]; omega), cz, ?_, rfl⟩
    · have := readUIntAt_mid (encRftHead 4 lw ml dfi ++ toBE 2 sw) (toBE sw cz) sw u hu'
      simp only [List.length_append, hl, toBE_length, List.append_assoc] at this
      rw [List.append_assoc]
      exact this
    · have := readUIntAt_mid (encRftHead 4 lw ml dfi ++ toBE 2 sw ++ toBE sw u) [] sw cz hc
      simp only [List.append_nil, List.length_append, hl, toBE_length, List.append_assoc] at this
      rw [show 2 + lw + 1 + 2 + sw = 2 + lw + 1 + (2 + sw) by omega, List.append_assoc]
      exact this
  · rw [h4]; simp [rftFilePos, pure, Except.pure]
  · simp [hl]; omega
  · simp [h4]

/-! ### snapshot identification (sub-function 03): one 4-byte entry per (DTC, record number); entries of one DTC are collected on that DTC -/

def encIdentRecs (id : Nat) : List Snap → Bytes
  | [] => []
  | s :: rest => toBE 3 id ++ [UInt8.ofNat s.record] ++ encIdentRecs id rest

def encIdents : List DtcRec → Bytes
  | [] => []
  | r :: rest => encIdentRecs r.id r.snaps ++ encIdents rest

def IdentOk (ign : Bool) (r : DtcRec) : Prop :=
  r.id < 2 ^ 24 ∧ r.snaps ≠ [] ∧ (∀ s ∈ r.snaps, s.record < 256 ∧ s.did = none ∧ s.raw = [] ∧ (r.id ≠ 0 ∨ s.record ≠ 0 ∨ ign = false)) ∧
  r.status = 0 ∧ r.severity = 0 ∧ r.funit = none ∧ r.fault = none ∧ r.ext = []

theorem addSnapIdent_new (acc : List DtcRec) (id rec : Nat) (h : ∀ x ∈ acc, x.id ≠ id) :
    addSnapIdent acc id rec = acc ++ [{ id := id, snaps := [{ record := rec }] }] := by
  unfold addSnapIdent
  have : acc.any (·.id == id) = false := by rw [List.any_eq_false]; intro x hx; simpa using h x hx
  simp [this]

theorem addSnapIdent_last (acc : List DtcRec) (x : DtcRec) (rec : Nat) (h : ∀ y ∈ acc, y.id ≠ x.id) :
    addSnapIdent (acc ++ [x]) x.id rec = acc ++ [{ x with snaps := x.snaps ++ [{ record := rec }] }] := by
  unfold addSnapIdent
  have hany : (acc ++ [x]).any (·.id == x.id) = true := by simp
  simp only [hany, if_true, List.map_append, List.map_cons, List.map_nil, beq_self_eq_true]
  congr 1
  have : acc.map (fun y => if (y.id == x.id) = true then { y with snaps := y.snaps ++ [{ record := rec }] } else y) = acc := by
    induction acc with
    | nil => rfl
    | cons a as ih =>
      have ha : (a.id == x.id) = false := by simpa using h a (by simp)
      simp only [List.map_cons, ha, Bool.false_eq_true, if_false]
      rw [ih (fun y hy => h y (by simp [hy])) (by simp)]
  exact this

theorem ident_entry (tol ign : Bool) (id rec : Nat) (tail : Bytes) (acc : List DtcRec) (hid : id < 2 ^ 24) (hrec : rec < 256)
    (hnz : id ≠ 0 ∨ rec ≠ 0 ∨ ign = false) :
    g3Loop tol ign true (toBE 3 id ++ [UInt8.ofNat rec] ++ tail) acc = g3Loop tol ign true tail (addSnapIdent acc id rec) := by
  rw [g3Loop]
  have hlen : (toBE 3 id ++ [UInt8.ofNat rec] ++ tail).length = 4 + tail.length := by simp; omega
  have h0 : ¬ (toBE 3 id ++ [UInt8.ofNat rec] ++ tail).length = 0 := by omega
  have h1 : ¬ (toBE 3 id ++ [UInt8.ofNat rec] ++ tail).length < 4 := by omega
  have ht : (toBE 3 id ++ [UInt8.ofNat rec] ++ tail).take 4 = toBE 3 id ++ [UInt8.ofNat rec] := by
    rw [List.take_append_of_le_length (by simp)]; exact List.take_of_length_le (by simp)
  have hdp : (toBE 3 id ++ [UInt8.ofNat rec] ++ tail).drop 4 = tail := by
    rw [List.drop_append_of_le_length (by simp)]; simp [List.drop_of_length_le]
  have i3 : idx (toBE 3 id ++ [UInt8.ofNat rec]) 3 = .ok (UInt8.ofNat rec) := by simp [idx, pure, Except.pure]
  have hb : be3 (toBE 3 id ++ [UInt8.ofNat rec]) = id := be3_toBE id _ hid
  have hz : (allZero (toBE 3 id ++ [UInt8.ofNat rec]) && ign) = false := by
    rcases hnz with h | h | h
    · have : allZero (toBE 3 id) = false := by
        cases hz : allZero (toBE 3 id) with
        | false => rfl
        | true =>
          exfalso
          have := fromBE_toBE_of_lt (show id < 256 ^ 3 by simpa using hid)
          have hzero : toBE 3 id = zeros 3 := by
            simp only [allZero, List.all_eq_true, beq_iff_eq] at hz
            apply List.ext_getElem (by simp [zeros])
            intro i h1 h2
            simp only [zeros, List.getElem_replicate]
            exact hz _ (List.getElem_mem h1)
          rw [hzero] at this
          have h0 : fromBE (zeros 3) = 0 := by decide
          omega
      rw [allZero_append, this]; rfl
    · have : allZero [UInt8.ofNat rec] = false := by
        simp only [allZero, List.all_cons, List.all_nil, Bool.and_true, beq_eq_false_iff_ne, ne_eq]
        intro h0
        have := congrArg UInt8.toNat h0
        rw [toNat_ofNat_lt hrec] at this
        exact h this
      rw [allZero_append, this]; simp
    · simp [h]
  simp only [dif_neg h0, dif_neg h1, ht, hdp, hz, Bool.false_eq_true, if_false, i3, hb, bind, Except.bind, if_true, toNat_ofNat_lt hrec]

/-- the remaining entries of a DTC whose first entry is already collected as the last element of the accumulator -/
theorem ident_group_rest (tol ign : Bool) (x : DtcRec) (more : List Snap) (tail : Bytes) (acc : List DtcRec) (hid : x.id < 2 ^ 24)
    (hnew : ∀ y ∈ acc, y.id ≠ x.id) (hm : ∀ s ∈ more, s.record < 256 ∧ s.did = none ∧ s.raw = [] ∧ (x.id ≠ 0 ∨ s.record ≠ 0 ∨ ign = false)) :
    g3Loop tol ign true (encIdentRecs x.id more ++ tail) (acc ++ [x]) = g3Loop tol ign true tail (acc ++ [{ x with snaps := x.snaps ++ more }]) := by
  induction more generalizing x with
  | nil => simp [encIdentRecs]
  | cons s rest ih =>
    obtain ⟨hr, hd, hraw, hnz⟩ := hm s (by simp)
    simp only [encIdentRecs, List.append_assoc]
    rw [← List.append_assoc (toBE 3 x.id), ident_entry tol ign x.id s.record _ _ hid hr hnz, addSnapIdent_last acc x s.record hnew]
    have := ih { x with snaps := x.snaps ++ [{ record := s.record }] } hid hnew (fun t ht => hm t (by simp [ht]))
    simp only at this
    rw [this]
    have hs : ({ record := s.record } : Snap) = s := by cases s; simp_all
    simp [hs]

theorem ident_loop_roundtrip (tol ign : Bool) (l : List DtcRec) (acc : List DtcRec) (h : ∀ r ∈ l, IdentOk ign r)
    (hnd : ((acc ++ l).map (·.id)).Nodup) : g3Loop tol ign true (encIdents l) acc = .ok (acc ++ l) := by
  induction l generalizing acc with
  | nil => rw [g3Loop]; simp [encIdents, pure, Except.pure]
  | cons r rest ih =>
    obtain ⟨hid, hne, hs, hst, hsev, hfu, hfa, hex⟩ := h r (by simp)
    have hnew : ∀ y ∈ acc, y.id ≠ r.id := by
      intro y hy heq
      rw [List.map_append, List.map_cons] at hnd
      exact (List.nodup_append.1 hnd).2.2 y.id (List.mem_map_of_mem hy) r.id (by simp) heq
    cases hsn : r.snaps with
    | nil => exact absurd hsn hne
    | cons s more =>
      obtain ⟨hr, hd, hraw, hnz⟩ := hs s (by simp [hsn])
      simp only [encIdents, hsn, encIdentRecs, List.append_assoc]
      rw [← List.append_assoc (toBE 3 r.id), ident_entry tol ign r.id s.record _ _ hid hr hnz, addSnapIdent_new acc r.id s.record hnew]
      have := ident_group_rest tol ign { id := r.id, snaps := [{ record := s.record }] } more (encIdents rest) acc hid hnew
        (fun t ht => hs t (by simp [hsn, ht]))
      simp only at this
      rw [this]
      have hrr : ({ id := r.id, snaps := [{ record := s.record }] ++ more } : DtcRec) = r := by
        have hs' : ({ record := s.record } : Snap) = s := by cases s; simp_all
        cases r; simp_all
      rw [hrr, ih _ (fun x hx => h x (by simp [hx])) (by simpa using hnd)]
      simp

/-- **snapshot identification (0x03)**: every (DTC, record number) entry is kept; the record numbers of one DTC are collected on it, in order -/
theorem ident_roundtrip (c : DtcCfg) (e : UInt8) (l : List DtcRec) (h : ∀ r ∈ l, IdentOk c.ign r) (hnd : (l.map (·.id)).Nodup) :
    g3Interpret c true (e :: encIdents l) = .ok { sfEcho := e.toNat, count := l.length, dtcs := l } := by
  simp only [g3Interpret, bind_ok, pure_ok]
  refine ⟨e, idx_cons0' _ _, l, ?_, rfl⟩
  simpa using ident_loop_roundtrip c.tol c.ign l [] h (by simpa using hnd)


/-! ### the session-layer services: echoes, P2 / P2*, power-down time, seed, routine status, transfer records; IO control -/

theorem ofNat_toNat' {n : Nat} (h : n < 256) : (UInt8.ofNat n).toNat = n := by simp [UInt8.toNat_ofNat']; omega

/-- session change, 2013 and later: P2 = first 16-bit field × 1 ms, P2* = second 16-bit field × 10 ms -/
theorem session_roundtrip (std s p2 p2s : Nat) (hstd : std ≥ 2013) (hs : s < 256) (h1 : p2 < 65536) (h2 : p2s < 65536) :
    simpleClient std (.changeSession s) ([UInt8.ofNat s] ++ toBE 2 p2 ++ toBE 2 p2s) = .ok (.dsc s (some (p2, p2s * 10))) := by
  have hd : ([UInt8.ofNat s] ++ toBE 2 p2 ++ toBE 2 p2s) = UInt8.ofNat s :: (toBE 2 p2 ++ toBE 2 p2s) := rfl
  have hl : ([UInt8.ofNat s] ++ toBE 2 p2 ++ toBE 2 p2s).length = 5 := by simp
  have ha : slice ([UInt8.ofNat s] ++ toBE 2 p2 ++ toBE 2 p2s) 1 3 = toBE 2 p2 := by
    rw [hd]; simp [slice]
  have hb : slice ([UInt8.ofNat s] ++ toBE 2 p2 ++ toBE 2 p2s) 3 5 = toBE 2 p2s := by
    rw [hd]; simp [slice, List.take_of_length_le]
  have hi : dscInterpret std ([UInt8.ofNat s] ++ toBE 2 p2 ++ toBE 2 p2s) =
      .ok ⟨s, ([UInt8.ofNat s] ++ toBE 2 p2 ++ toBE 2 p2s).drop 1, some (p2, p2s * 10)⟩ := by
    simp only [dscInterpret, echo1, bind_ok, pure_ok]
    refine ⟨s, ?_, ?_⟩
    · rw [if_neg (by omega)]
      simp only [bind_ok, pure_ok]
      exact ⟨UInt8.ofNat s, by rw [hd]; exact idx_cons0' _ _, ofNat_toNat' hs⟩
    · rw [if_pos hstd, if_neg (by omega), ha, hb, fromBE_toBE_of_lt (show p2 < 256 ^ 2 by omega), fromBE_toBE_of_lt (show p2s < 256 ^ 2 by omega)]
      rw [if_pos (by omega)]
      rfl
  unfold simpleClient; rw [hi]; simp [guardPy, bind, Except.bind, pure, Except.pure]

/-- session change under the 2006 edition: the echo only (the record is manufacturer specific) -/
theorem session_roundtrip_2006 (std s : Nat) (rec : Bytes) (hstd : std < 2013) (hs : s < 256) :
    simpleClient std (.changeSession s) (UInt8.ofNat s :: rec) = .ok (.dsc s none) := by
  have hi : dscInterpret std (UInt8.ofNat s :: rec) =
      .ok ⟨s, if (UInt8.ofNat s :: rec).length > 1 then (UInt8.ofNat s :: rec).drop 1 else [], none⟩ := by
    simp only [dscInterpret, echo1, bind_ok, pure_ok]
    refine ⟨s, ?_, ?_⟩
    · rw [if_neg (by simp)]
      simp only [bind_ok, pure_ok]
      exact ⟨UInt8.ofNat s, idx_cons0' _ _, ofNat_toNat' hs⟩
    · rw [if_neg (by omega)]; rfl
  unfold simpleClient; rw [hi]; simp [guardPy, bind, Except.bind, pure, Except.pure]

/-- ECU reset: the power-down time is present exactly for enableRapidPowerShutDown (4) -/
theorem reset_roundtrip_powerdown (pd : UInt8) :
    simpleClient 2020 (.ecuReset 4) [4, pd] = .ok (.reset 4 (some pd.toNat)) := by
  simp [simpleClient, ecuResetInterpret, guardPy, idx, bind, Except.bind, pure, Except.pure]

theorem reset_roundtrip (t : Nat) (ht : t < 256) (h4 : t ≠ 4) :
    simpleClient 2020 (.ecuReset t) [UInt8.ofNat t] = .ok (.reset t none) := by
  have hi : ecuResetInterpret [UInt8.ofNat t] = .ok (.reset t none) := by
    simp only [ecuResetInterpret, bind_ok]
    refine ⟨(), guardPy_ok.2 (by simp), UInt8.ofNat t, idx_cons0' _ _, ?_⟩
    rw [ofNat_toNat' ht]; have : (t == 4) = false := by simpa using h4
    rw [this]; rfl
  unfold simpleClient; rw [hi]; simp [guardPy, bind, Except.bind, pure, Except.pure]

/-- security access, seed request with odd level `l`: the seed is everything after the echo -/
theorem seed_roundtrip (l : Nat) (par : Bytes) (seed : Bytes) (hl : 1 ≤ l ∧ l ≤ 0x7E) (hodd : l % 2 = 1) (hne : seed ≠ []) :
    simpleClient 2020 (.requestSeed l par) (UInt8.ofNat l :: seed) = .ok (.sa l (some seed)) := by
  have hlen : 1 ≤ seed.length := by cases seed with | nil => exact absurd rfl hne | cons _ _ => simp
  have hi : saInterpret .requestSeed (UInt8.ofNat l :: seed) = .ok (.sa l (some seed)) := by
    simp only [saInterpret, bind_ok, pure_ok]
    refine ⟨(), guardPy_ok.2 (by simp; omega), UInt8.ofNat l, idx_cons0' _ _, ?_⟩
    rw [ofNat_toNat' (by omega)]; rfl
  have hn : normalizeLevel .requestSeed (l : Int) = .ok l := by
    simp only [normalizeLevel, bind_ok, pure_ok]
    refine ⟨(), validateInt_ok.2 (by omega), ?_⟩
    have : ((l : Int) % 2 == 1) = true := by simp; omega
    simp [this]
  unfold simpleClient; rw [hi]; simp [hn, guardPy, bind, Except.bind, pure, Except.pure]

/-- routine control: control type, 16-bit routine identifier, status record -/
theorem routine_roundtrip (ct rid : Nat) (dat : Option Bytes) (status : Bytes) (hct : ct < 256) (hr : rid < 65536) :
    simpleClient 2020 (.routineControl rid ct dat) ([UInt8.ofNat ct] ++ toBE 2 rid ++ status) = .ok (.routine ct rid status) := by
  have hd : ([UInt8.ofNat ct] ++ toBE 2 rid ++ status) = UInt8.ofNat ct :: (toBE 2 rid ++ status) := by simp
  have hs : slice ([UInt8.ofNat ct] ++ toBE 2 rid ++ status) 1 3 = toBE 2 rid := by
    rw [hd]; simp [slice, List.take_append_of_le_length]
  have hdrop : ([UInt8.ofNat ct] ++ toBE 2 rid ++ status).drop 3 = status := by
    rw [hd]; simp [List.drop_append]
  have hi : routineInterpret ([UInt8.ofNat ct] ++ toBE 2 rid ++ status) = .ok (.routine ct rid status) := by
    simp only [routineInterpret, bind_ok, pure_ok]
    refine ⟨(), guardPy_ok.2 (by simp), UInt8.ofNat ct, by rw [hd]; exact idx_cons0' _ _, rid, ?_, ?_⟩
    · rw [hs]; simp [unpackBE, fromBE_toBE_of_lt (show rid < 256 ^ 2 by omega), pure, Except.pure]
    · rw [ofNat_toNat' hct, hdrop]
  unfold simpleClient; rw [hi]; simp [guardPy, bind, Except.bind, pure, Except.pure]

/-- transfer data: block sequence counter echo, then the transfer response parameter record -/
theorem transfer_roundtrip (seq : Nat) (dat : Option Bytes) (recs : Bytes) (hs : seq < 256) :
    simpleClient 2020 (.transferData seq dat) (UInt8.ofNat seq :: recs) = .ok (.transferData seq recs) := by
  have hi : transferDataInterpret (UInt8.ofNat seq :: recs) = .ok (.transferData seq recs) := by
    simp only [transferDataInterpret, bind_ok, pure_ok]
    refine ⟨(), guardPy_ok.2 (by simp), UInt8.ofNat seq, idx_cons0' _ _, ?_⟩
    rw [ofNat_toNat' hs]; rfl
  unfold simpleClient; rw [hi]; simp [guardPy, bind, Except.bind, pure, Except.pure]

/-- access timing parameters: echo, then the timing parameter record -/
theorem accessTiming_roundtrip (t : Nat) (r : Option Bytes) (recs : Bytes) (ht : t < 256) :
    simpleClient 2020 (.accessTiming t r) (UInt8.ofNat t :: recs) = .ok (.accessTiming t recs) := by
  have hi : accessTimingInterpret (UInt8.ofNat t :: recs) = .ok (.accessTiming t recs) := by
    simp only [accessTimingInterpret, bind_ok, pure_ok]
    refine ⟨(), guardPy_ok.2 (by simp), UInt8.ofNat t, idx_cons0' _ _, ?_⟩
    rw [ofNat_toNat' ht]; rfl
  unfold simpleClient; rw [hi]; simp [guardPy, bind, Except.bind, pure, Except.pure]

theorem ioDecode_exact (e : IoEntry) (tol : Bool) (did n : Nat) (cp : Option Nat) (v : Bytes) (hn : e.codecLen = some n) (hv : v.length = n) :
    ioDecode e tol did cp v = .ok (.io did cp (some v)) := by
  unfold ioDecode; simp only [hn]
  have : (decide (v.length > n) && allZero (List.drop n v) && tol) = false := by simp [hv]
  rw [this]; simp [hv, pure, Except.pure]

/-- InputOutputControlByIdentifier with a fixed-length codec: identifier, control parameter echo, then exactly the codec's bytes -/
theorem io_roundtrip (cfg : IoCfg) (e : IoEntry) (did cp n : Nat) (tol : Bool) (v : Bytes) (hd : did < 65536) (hc : cp < 256)
    (hf : fetchIoEntry cfg did = .ok e) (hn : e.codecLen = some n) (hv : v.length = n) :
    ioClient cfg did (some cp) tol (toBE 2 did ++ [UInt8.ofNat cp] ++ v) = .ok (.io did (some cp) (some v)) := by
  have ht : (toBE 2 did ++ [UInt8.ofNat cp] ++ v).take 2 = toBE 2 did := by
    rw [List.append_assoc, List.take_append_of_le_length (by simp)]; simp [List.take_of_length_le]
  have hdr : (toBE 2 did ++ [UInt8.ofNat cp] ++ v).drop 3 = v := by
    rw [List.append_assoc, List.drop_append]; simp
  have hi : ioInterpret cfg (some cp) tol (toBE 2 did ++ [UInt8.ofNat cp] ++ v) = .ok (.io did (some cp) (some v)) := by
    simp only [ioInterpret, ioCpEcho, bind_ok, pure_ok]
    refine ⟨(), guardPy_ok.2 (by simp; omega), did, ?_, e, hf, (some cp, 3), ⟨(), guardPy_ok.2 (by simp), UInt8.ofNat cp, ?_, by rw [ofNat_toNat' hc]⟩, ?_⟩
    · rw [ht]; simp [unpackBE, fromBE_toBE_of_lt (show did < 256 ^ 2 by omega), pure, Except.pure]
    · rw [List.append_assoc]; rw [idx_ok (by simp)]; simp [List.getElem_append_right]
    · show ioDecode e tol did (some cp) ((toBE 2 did ++ [UInt8.ofNat cp] ++ v).drop 3) = _
      rw [hdr]; exact ioDecode_exact e tol did n (some cp) v hn hv
  unfold ioClient; rw [hi]; simp

/-! ### non-vacuity -/
example : RecOk false { id := 0x123456, status := 0x20 } ∧ recNonZero false true { id := 0x123456, status := 0x20 } := by
  refine ⟨⟨by decide, by decide, rfl, rfl, rfl, by simp⟩, by unfold recNonZero; decide⟩
example : DidsOk { entries := [(0x1234, some 2), (0xEEEE, none)] } true [(0x1234, [1, 2]), (0xEEEE, [9, 9, 9])] := by
  refine ⟨by decide, Or.inl (by decide), ⟨some 2, rfl, ?_, ?_⟩, by decide, Or.inl (by decide), ⟨none, rfl, ?_, ?_⟩, trivial⟩
  · intro n h; cases h; rfl
  · intro h; cases h
  · intro n h; cases h
  · intro _; rfl
example : ExtOk 2 (5, [0xAA, 0xBB]) := ⟨by decide, by decide, rfl⟩
example : SnapOk (some { entries := [(0x1234, some 2)] }) 2 7 { record := 7, did := some 0x1234, raw := [1, 2] } :=
  ⟨rfl, 0x1234, rfl, by decide, { entries := [(0x1234, some 2)] }, rfl, rfl⟩
example : xferInterpret (encMaxLen 8 (2 ^ 64 - 1)) = .ok (.xfer (2 ^ 64 - 1)) := xfer_roundtrip 8 _ (by decide) (by decide)
example : simpleClient 2020 (.changeSession 3) [3, 0x00, 0x32, 0x01, 0xF4] = .ok (.dsc 3 (some (50, 5000))) :=
  session_roundtrip 2020 3 50 500 (by decide) (by decide) (by decide) (by decide)
example : fetchIoEntry { entries := [(0x1234, { codecLen := some 2 })] } 0x1234 = .ok { codecLen := some 2 } := by decide

end Uds.Props.C02
