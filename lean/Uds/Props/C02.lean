import Uds.Model.DecodeDtc
namespace Uds.Props.C02
theorem placeholder : True := trivial
end Uds.Props.C02
