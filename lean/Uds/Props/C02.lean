import Uds.Lemmas.Loops
/-
  C02 — well-formed positive responses decode to exactly the values the server encoded.
  `interpret (Spec.encode v) = v` for arbitrary record lists (by induction), field values and widths.
-/
namespace Uds.Props.C02
open Uds Uds.Model Uds.Spec

/-! ### ReadDTCInformation, availability mask + DTC records (sub-functions 02, 0A–0F, 13, 15 and 08, 09; with MemorySelection: 17) -/

/-- the record list survives, in order and in number, whatever its length -/
theorem records_loop_roundtrip (tol ign six sf09 first : Bool) (rs : List DtcRec) (acc : List DtcRec)
    (hr : ∀ r ∈ rs, RecOk six r ∧ recNonZero six ign r) :
    recordLoop tol ign six sf09 first (encRecs six rs) acc = .ok (acc.reverse ++ rs) := by
  have := recordLoop_prefix tol ign six sf09 first rs [] acc hr
  rw [List.append_nil] at this
  rw [this, recordLoop_nil]; simp

theorem records_roundtrip (c : DtcCfg) (sf : Nat) (six : Bool) (e av : UInt8) (rs : List DtcRec) (hms : hasMemSel sf = false)
    (hr : ∀ r ∈ rs, RecOk six r ∧ recNonZero six c.ign r) :
    recordsInterpret c sf six ([e, av] ++ encRecs six rs) =
      .ok { sfEcho := e.toNat, statusAvail := some av.toNat, count := rs.length, dtcs := rs } := by
  unfold recordsInterpret
  have hlen : ¬ (([e, av] ++ encRecs six rs).length < 2) := by simp
  simp only [hms, Bool.false_eq_true, if_false, optByte]
  have hg : guardPy (decide (([e, av] ++ encRecs six rs).length < 2)) PyErr.invalid = .ok () := guardPy_ok.2 (by simp)
  simp only [List.cons_append, List.nil_append] at hg ⊢
  simp only [idx, List.getElem?_cons_zero, List.getElem?_cons_succ, hg, bind, Except.bind, pure, Except.pure, List.drop_succ_cons, List.drop_zero]
  rw [records_loop_roundtrip _ _ _ _ _ rs [] hr]
  simp

theorem records_roundtrip_memsel (c : DtcCfg) (sf : Nat) (six : Bool) (e ms av : UInt8) (rs : List DtcRec) (hms : hasMemSel sf = true)
    (hr : ∀ r ∈ rs, RecOk six r ∧ recNonZero six c.ign r) :
    recordsInterpret c sf six ([e, ms, av] ++ encRecs six rs) =
      .ok { sfEcho := e.toNat, memSel := some ms.toNat, statusAvail := some av.toNat, count := rs.length, dtcs := rs } := by
  unfold recordsInterpret
  simp only [hms, if_true, optByte]
  have hg : guardPy (decide (([e, ms, av] ++ encRecs six rs).length < 3)) PyErr.invalid = .ok () := guardPy_ok.2 (by simp)
  simp only [List.cons_append, List.nil_append] at hg ⊢
  simp only [idx, List.getElem?_cons_zero, List.getElem?_cons_succ, hg, bind, Except.bind, pure, Except.pure, List.drop_succ_cons, List.drop_zero]
  rw [records_loop_roundtrip _ _ _ _ _ rs [] hr]
  simp

/-! ### number of DTC (sub-functions 01, 07, 11, 12) -/

theorem count_roundtrip (e av fmt : UInt8) (n : Nat) (hn : n < 65536) :
    countInterpret ([e, av, fmt] ++ toBE 2 n) = .ok { sfEcho := e.toNat, statusAvail := some av.toNat, format := some fmt.toNat, count := n } := by
  unfold countInterpret
  have hg : guardPy (decide (([e, av, fmt] ++ toBE 2 n).length < 5)) PyErr.invalid = .ok () := guardPy_ok.2 (by simp)
  have hs : slice ([e, av, fmt] ++ toBE 2 n) 3 5 = toBE 2 n := by
    simp [slice, List.take_of_length_le]
  have hu : unpackBE 2 (toBE 2 n) = .ok n := by
    simp [unpackBE, fromBE_toBE_of_lt (show n < 256 ^ 2 by omega), pure, Except.pure]
  simp only [hs, hu, hg, bind, Except.bind, pure, Except.pure]
  simp [idx, pure, Except.pure]

/-! ### RequestDownload / RequestUpload: maxNumberOfBlockLength is unsigned on 1..8 bytes -/

theorem xfer_roundtrip (w v : Nat) (hw : 1 ≤ w ∧ w ≤ 8) (hv : v < 256 ^ w) : xferInterpret (encMaxLen w v) = .ok (.xfer v) := by
  unfold xferInterpret encMaxLen
  have hb : (UInt8.ofNat (w * 16)).toNat = w * 16 := toNat_ofNat_lt (by omega)
  have hlen : ([UInt8.ofNat (w * 16)] ++ toBE w v).length = 1 + w := by simp; omega
  have hg1 : guardPy (decide (([UInt8.ofNat (w * 16)] ++ toBE w v).length < 1)) PyErr.invalid = .ok () := guardPy_ok.2 (by simp)
  have hi : idx ([UInt8.ofNat (w * 16)] ++ toBE w v) 0 = .ok (UInt8.ofNat (w * 16)) := by simp [idx, pure, Except.pure]
  have hsh : (w * 16) >>> 4 = w := by rw [Nat.shiftRight_eq_div_pow]; omega
  have hnw : ¬ w > 8 := by omega
  have hg2 : guardPy (decide (w > 8)) PyErr.notImpl = .ok () := guardPy_ok.2 (by simp [hnw])
  have hg3 : guardPy (decide (([UInt8.ofNat (w * 16)] ++ toBE w v).length < w + 1)) PyErr.invalid = .ok () := guardPy_ok.2 (by simp)
  have hr : readUIntAt ([UInt8.ofNat (w * 16)] ++ toBE w v) 1 w = .ok v := by
    unfold readUIntAt
    have : 1 + w ≤ ([UInt8.ofNat (w * 16)] ++ toBE w v).length := by omega
    simp only [this, if_true]
    simp [List.take_of_length_le, fromBE_toBE_of_lt hv]
  simp only [hg1, hi, hb, hsh, hg2, hg3, hr, bind, Except.bind, pure, Except.pure]

/-! ### non-vacuity -/
example : RecOk false { id := 0x123456, status := 0x20 } ∧ recNonZero false true { id := 0x123456, status := 0x20 } := by
  refine ⟨⟨by decide, by decide, rfl, rfl, rfl, by simp⟩, by unfold recNonZero; decide⟩
example : xferInterpret (encMaxLen 8 (2 ^ 64 - 1)) = .ok (.xfer (2 ^ 64 - 1)) := xfer_roundtrip 8 _ (by decide) (by decide)

end Uds.Props.C02
