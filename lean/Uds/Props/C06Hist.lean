import Uds.Props.CallUnify
import Uds.Props.C09Hist
import Uds.Props.C08Hist
/-
  C06 over arbitrary histories: after ANY earlier sequence of operations on the client, a call that is answered — after any number of in-time
  response-pending replies — by a negative response with a code other than 0x78 ends with the verdict `negative code`, under every switch setting,
  provided only that the client reads replies at that moment, which is decided by the block operations of the history alone (`C09.hrun_flags`).
-/
namespace Uds.Props.C06
open Uds Uds.Model Uds.Props.CallUnify Uds.Props.C02

theorem verdict_of_negative_shape (sw : Switches) (i : Inner) (c : Nat) (hw : C08.WfInner i) (hs : Inner.shape i = .exc (.negative c)) :
    (deliver sw i).verdict = .negative c := by
  cases i with
  | ret r => cases r <;> simp [Inner.shape] at hs
  | exc e r =>
    simp only [Inner.shape, Shape.exc.injEq] at hs
    subst hs
    cases r with
    | none => simp [deliver, Outer.verdict]
    | some r => exact (C08.verdict_is_the_failure sw r).1 c hw

/-- **negative_ends_the_call_after_any_history** -/
theorem negative_ends_the_call_after_any_history (s : HState) (earlier : List HOp) (e : Entry) (req : Request) (svc : Service) (p0 : Bytes)
    (pend : List Frame) (c : UInt8) (tail : Bytes) (tfin : Nat) (extra : List Frame)
    (hed : C04.EdOk s.cfg.std) (hops : ∀ v, HOp.setStd v ∈ earlier → C04.EdOk v)
    (hm : e.makeRequest (hrun s earlier).1.cfg.std = .ok req) (hsvc : req.service = some svc) (hs : svc ∈ services) (hp0 : req.getPayload none = .ok p0)
    (hreqspr : req.spr = false)
    -- the client reads replies: decided by the block operations alone
    (hreads : (earlier.foldl C09.blockFold (s.cs.spr, s.cs.override)).1.enabled = false ∨ (earlier.foldl C09.blockFold (s.cs.spr, s.cs.override)).1.waitNrc = true)
    (hc : c ≠ 0x78) (hp : ∀ f ∈ pend, ∃ t, f.payload = nrcFrame svc 0x78 t)
    (ht : Spec.InTime (hrun s earlier).1.cfg.send.requestTimeout (p2starEff (hrun s earlier).1.cfg.send (hrun s earlier).1.cs) 0
            (firstSingle (hrun s earlier).1.cfg.send (hrun s earlier).1.cs) (pend.map (·.arrival)) tfin) :
    C08.verdictOf (hstep (hrun s earlier).1 (.call e (pend ++ ⟨tfin, nrcFrame svc c tail⟩ :: extra))).2 = some (.negative c.toNat) := by
  have hfl := C09.hrun_flags s earlier
  have hreads' : (hrun s earlier).1.cs.spr.enabled = false ∨ (hrun s earlier).1.cs.spr.waitNrc = true := by
    have := congrArg Prod.fst hfl
    simp only at this
    rw [this]; exact hreads
  have hed' : C04.EdOk (hrun s earlier).1.cfg.std := by
    clear hm ht hreads' hfl hreads
    induction earlier generalizing s with
    | nil => simpa [hrun] using hed
    | cons op rest ih =>
      simp only [hrun]
      exact ih (hstep s op).1 (C04.hstep_ok s op hed (fun v hv => hops v (by simp [hv]))).2 (fun v hv => hops v (by simp [hv]))
  have hshape := simple_call_negative (hrun s earlier).1.cfg (hrun s earlier).1.cs e req svc p0 pend c tail tfin extra hm hsvc hs hp0 hreqspr hreads' hc hp ht
  simp only [hstep, C08.verdictOf, Option.map]
  rw [verdict_of_negative_shape _ _ _ (C08.callInner_wf_all _ _ e _ hed') hshape]

/-! non-vacuity: a timed-out call, a block that waits for an NRC, a stray frame — then pending + negative under all switches off -/
example : C08.verdictOf (hstep (hrun { cfg := { send := ⟨some 2000, 100, 300, false⟩ }, sw := ⟨false, false, false⟩ }
      [.call (.ecuReset 1) [], .enterSpr true, .stray [0x51, 0x01]]).1
      (.call (.ecuReset 1) [⟨5, [0x7F, 0x11, 0x78]⟩, ⟨50, [0x7F, 0x11, 0x22]⟩])).2 = some (.negative 0x22) := by decide +kernel

end Uds.Props.C06
