import Uds.Props.C11
import Uds.Props.C02Call
/-
  C11 at call level: what a client method built on `callWith` hands back for an in-time final positive reply is a function of what its interpretation
  says about the reply's data (`callWith_final`).  Hence: where the interpretation reads `d ++ zeros n` as it reads `d` (the padding theorems of C11,
  tolerance on), the call returns the same value for the padded reply; where it refuses the padded data (tolerance off), the call raises the
  invalid-response outcome — after any number of in-time response-pending replies, whatever arrives afterwards.
-/
namespace Uds.Props.C11
open Uds Uds.Model Uds.Props.C05 Uds.Props.C02

/-- **the outcome of a call is the interpretation of the final reply**: for an in-time valid positive response `fin` of the request's service (after
    any number of in-time response-pending replies, outside suppress blocks) the call returns the interpreted value, or raises what the interpretation
    and echo checks raised -/
theorem callWith_final {α : Type} (cfg : SendCfg) (st : ClientState) (req : Request) (post : Bytes → Py α) (svc : Service) (p0 : Bytes)
    (pend : List Frame) (fin : Frame) (extra : List Frame)
    (hsvc : req.service = some svc) (hp0 : req.getPayload none = .ok p0) (hreqspr : req.spr = false) (hspr : st.spr.enabled = false)
    (hp : ∀ f ∈ pend, classify (svc.sid + 0x40) f.payload = .pending)
    (hf : classify (svc.sid + 0x40) fin.payload = .positive)
    (ht : Spec.InTime cfg.requestTimeout (p2starEff cfg st) 0 (firstSingle cfg st) (pend.map (·.arrival)) fin.arrival) :
    callWith cfg st req post (pend ++ fin :: extra) =
      (match post (Response.fromPayload fin.payload).data with | .ok v => .ret (some v) | .error e => .exc e) := by
  unfold callWith sendRequest
  simp only [hsvc, hspr, Bool.false_and, Bool.false_eq_true, if_false, hp0, hreqspr, Bool.or_self]
  have hfd := final_delivered cfg.requestTimeout (p2starEff cfg st) cfg.hasCallback (svc.sid + 0x40) false pend fin extra 0
    (firstSingle cfg st) false (by intro h; cases h) hp (by rw [hf]; intro h; cases h) ht
  unfold C02.firstSingle at hfd
  cases hrt : cfg.requestTimeout <;> simp only [hrt] at hfd ⊢ <;> rw [hfd] <;> simp only [finalOutcome, hf, Bool.false_eq_true, if_false] <;>
    (cases post (Response.fromPayload fin.payload).data <;> rfl)

/-- **padding tolerated, any method**: if the method's interpretation reads the padded data as it reads the data itself, the call hands back the same
    result for the reply `rid :: d ++ zeros n` as for `rid :: d` -/
theorem callWith_padding_invariant {α : Type} (cfg : SendCfg) (st : ClientState) (req : Request) (post : Bytes → Py α) (svc : Service) (p0 : Bytes)
    (rid : UInt8) (d : Bytes) (n t : Nat) (pend extra : List Frame)
    (hsvc : req.service = some svc) (hp0 : req.getPayload none = .ok p0) (hreqspr : req.spr = false) (hspr : st.spr.enabled = false)
    (hrid : rid ≠ 0x7F) (hresp : fromResponseId rid.toNat = some svc) (hd : d ≠ [])
    (hp : ∀ f ∈ pend, classify (svc.sid + 0x40) f.payload = .pending)
    (ht : Spec.InTime cfg.requestTimeout (p2starEff cfg st) 0 (firstSingle cfg st) (pend.map (·.arrival)) t)
    (hpad : post (d ++ zeros n) = post d) :
    callWith cfg st req post (pend ++ ⟨t, rid :: (d ++ zeros n)⟩ :: extra) = callWith cfg st req post (pend ++ ⟨t, rid :: d⟩ :: extra) := by
  obtain ⟨c1, e1⟩ := positive_frame svc rid (d ++ zeros n) hrid hresp (by simp [hd])
  obtain ⟨c2, e2⟩ := positive_frame svc rid d hrid hresp hd
  rw [callWith_final cfg st req post svc p0 pend ⟨t, rid :: (d ++ zeros n)⟩ extra hsvc hp0 hreqspr hspr hp c1 ht,
      callWith_final cfg st req post svc p0 pend ⟨t, rid :: d⟩ extra hsvc hp0 hreqspr hspr hp c2 ht]
  simp only [e1, e2, hpad]

/-- **padding not tolerated, any method**: if the interpretation refuses the padded data as invalid, the call raises the invalid-response outcome -/
theorem callWith_padding_rejected {α : Type} (cfg : SendCfg) (st : ClientState) (req : Request) (post : Bytes → Py α) (svc : Service) (p0 : Bytes)
    (rid : UInt8) (d : Bytes) (n t : Nat) (pend extra : List Frame) (e : PyErr)
    (hsvc : req.service = some svc) (hp0 : req.getPayload none = .ok p0) (hreqspr : req.spr = false) (hspr : st.spr.enabled = false)
    (hrid : rid ≠ 0x7F) (hresp : fromResponseId rid.toNat = some svc) (hd : d ≠ [])
    (hp : ∀ f ∈ pend, classify (svc.sid + 0x40) f.payload = .pending)
    (ht : Spec.InTime cfg.requestTimeout (p2starEff cfg st) 0 (firstSingle cfg st) (pend.map (·.arrival)) t)
    (hrej : post (d ++ zeros n) = .error e) :
    callWith cfg st req post (pend ++ ⟨t, rid :: (d ++ zeros n)⟩ :: extra) = .exc e := by
  obtain ⟨c1, e1⟩ := positive_frame svc rid (d ++ zeros n) hrid hresp (by simp [hd])
  rw [callWith_final cfg st req post svc p0 pend ⟨t, rid :: (d ++ zeros n)⟩ extra hsvc hp0 hreqspr hspr hp c1 ht]
  simp only [e1, hrej]

/-- **RequestFileTransfer at call level**: for every reply data `d` the interpretation accepts without tolerance, the call made with tolerance on
    hands back for `78 d 00…00` exactly what the call made with tolerance off hands back for `78 d` -/
theorem rft_call_pad_tolerated (cfg : SendCfg) (st : ClientState) (moop : Int) (path : Bytes) (dfi : Option Nat) (fs : Option FilesizeArg) (req : Request)
    (d : Bytes) (v : SData) (n t : Nat) (pend extra : List Frame)
    (hm : rftMakeRequest moop path dfi fs = .ok req) (hspr : st.spr.enabled = false) (hd : d ≠ [])
    (hp : ∀ f ∈ pend, classify 0x78 f.payload = .pending)
    (ht : Spec.InTime cfg.requestTimeout (p2starEff cfg st) 0 (firstSingle cfg st) (pend.map (·.arrival)) t)
    (hv : rftInterpret false d = .ok v) :
    callWith cfg st req (rftClient moop.toNat dfi true) (pend ++ ⟨t, 0x78 :: (d ++ zeros n)⟩ :: extra) =
      callWith cfg st req (rftClient moop.toNat dfi false) (pend ++ ⟨t, 0x78 :: d⟩ :: extra) := by
  obtain ⟨frame, _, _, hp0, _⟩ := C01.rft_frame_decodes moop path dfi fs req {} hm
  let svc : Service := ⟨"RequestFileTransfer", 0x38, false, true⟩
  have hsvc : req.service = some svc := by
    unfold rftMakeRequest at hm
    simp only [bind_ok, guardPy_ok, pure_ok] at hm
    obtain ⟨_, _, _, _, _, _, _, _, _, _, _, _, _, _, _, _, rfl⟩ := hm
    simp [mkReq, C01.svc_rft, svc]
  have hspr' : req.spr = false := by
    unfold rftMakeRequest at hm
    simp only [bind_ok, guardPy_ok, pure_ok] at hm
    obtain ⟨_, _, _, _, _, _, _, _, _, _, _, _, _, _, _, _, rfl⟩ := hm
    rfl
  obtain ⟨c1, e1⟩ := positive_frame svc 0x78 (d ++ zeros n) (by decide) (by decide) (by simp [hd])
  obtain ⟨c2, e2⟩ := positive_frame svc 0x78 d (by decide) (by decide) hd
  rw [callWith_final cfg st req _ svc frame pend ⟨t, 0x78 :: (d ++ zeros n)⟩ extra hsvc hp0 hspr' hspr hp c1 ht,
      callWith_final cfg st req _ svc frame pend ⟨t, 0x78 :: d⟩ extra hsvc hp0 hspr' hspr hp c2 ht]
  simp only [e1, e2, rftClient_pad_tolerated moop.toNat dfi d v n hv]

end Uds.Props.C11
