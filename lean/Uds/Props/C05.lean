import Uds.Model.Send
import Uds.Spec.Timing
import Uds.Lemmas.Bytes
/-
  C05 — waiting obeys P2, P2* and the overall timeout exactly, for every reply schedule.
  Theorems about `Model.waitLoop` / `Model.sendRequest`, by induction on the schedule (any length).
-/
namespace Uds.Props.C05
open Uds Uds.Model

/-- the window the code computes is exactly `min(single, deadline − now)` -/
theorem window_is_min (dl : Option Nat) (now single : Nat) : (window dl now single).1 = Spec.win dl now single := by
  unfold window Spec.win
  cases dl with
  | none => rfl
  | some d => simp only []; split <;> simp <;> omega

/-- which limit is reported: the overall one exactly when the deadline is what bounds the window -/
theorem window_kind (d now single : Nat) : (window (some d) now single).2 = true ↔ d ≤ now + single := by
  unfold window; simp only []; split <;> simp <;> omega

def classify (reqRid : Nat) (p : Bytes) : FrameClass := classifyResp reqRid (Response.fromPayload p)

/-- outcome the caller must see for a final (non-pending) frame -/
def finalOutcome (reqRid : Nat) (sprUsed : Bool) (p : Bytes) : SendOutcome :=
  let r := Response.fromPayload p
  match classify reqRid p with
  | .invalid => .raised .invalid (some r) none
  | .unexpected => .raised .unexpected (some r) none
  | .negative c => .raised (.negative c) (some r) none
  | .positive => if sprUsed then .none else .resp r
  | .assertFail => .raised .assertErr (some r) none
  | .pending => .none  -- not a final frame

private theorem valid_has_fields (p : Bytes) (h : (Response.fromPayload p).valid = true) :
    (Response.fromPayload p).service.isSome = true ∧ (Response.fromPayload p).code.isSome = true := by
  unfold Response.fromPayload at h ⊢
  repeat' split
  all_goals simp_all

/-- a valid parsed frame has a service and a code, so the `assert` branch is dead -/
theorem never_assert (rid : Nat) (p : Bytes) : classify rid p ≠ .assertFail := by
  unfold classify classifyResp
  cases hv : (Response.fromPayload p).valid
  · simp
  · obtain ⟨h1, h2⟩ := valid_has_fields p hv
    cases hs : (Response.fromPayload p).service with
    | none => simp [hs] at h1
    | some s =>
      cases hc : (Response.fromPayload p).code with
      | none => simp [hc] at h2
      | some c =>
        simp only [Bool.not_true, Bool.false_eq_true, if_false]
        repeat' split
        all_goals simp

private theorem loop_pending (dl : Option Nat) (ps : Nat) (cb : Bool) (rid : Nat) (spr : Bool) (now single : Nat)
    (star : Bool) (f : Frame) (rest : List Frame) (hc : classify rid f.payload = .pending)
    (hin : f.arrival ≤ now + Spec.win dl now single) :
    waitLoop dl ps cb rid spr now single star (f :: rest) =
      let next := waitLoop dl ps cb rid spr (max now f.arrival) (if star then single else ps) true rest
      { next with log := [.wait now (Spec.win dl now single)] ++ (if cb then [.callback] else []) ++ next.log } := by
  rw [waitLoop]
  unfold classify at hc
  simp only [window_is_min, hin, if_true, hc]

private theorem loop_final (dl : Option Nat) (ps : Nat) (cb : Bool) (rid : Nat) (spr : Bool) (now single : Nat)
    (star : Bool) (f : Frame) (rest : List Frame) (hc : classify rid f.payload ≠ .pending)
    (hin : f.arrival ≤ now + Spec.win dl now single) :
    waitLoop dl ps cb rid spr now single star (f :: rest) =
      { log := [.wait now (Spec.win dl now single)], tEnd := max now f.arrival,
        outcome := finalOutcome rid spr f.payload } := by
  rw [waitLoop]
  unfold finalOutcome
  unfold classify at hc ⊢
  simp only [window_is_min, hin, if_true]
  cases h : classifyResp rid (Response.fromPayload f.payload) <;> simp_all

private theorem loop_silent (dl : Option Nat) (ps : Nat) (cb : Bool) (rid : Nat) (spr : Bool) (now single : Nat)
    (star : Bool) (arr : List Frame) (h : ∀ f, arr.head? = some f → now + Spec.win dl now single < f.arrival) :
    waitLoop dl ps cb rid spr now single star arr =
      { log := [.wait now (Spec.win dl now single)], tEnd := now + Spec.win dl now single,
        outcome := if spr then .none
                   else .raised .timeout none (some (timeoutKind (window dl now single).2 star)) } := by
  rw [waitLoop]
  simp only [window_is_min]
  cases arr with
  | nil => rfl
  | cons f rest =>
    have := h f rfl
    have hn : ¬ (f.arrival ≤ now + Spec.win dl now single) := by omega
    simp only [hn, if_false]

/-- log of a run in which `pend` response-pending frames and then a final frame all arrive in time -/
def expectedLog (dl : Option Nat) (ps : Nat) (cb : Bool) : (now single : Nat) → List Nat → List Op
  | now, single, [] => [.wait now (Spec.win dl now single)]
  | now, single, a :: as =>
    [.wait now (Spec.win dl now single)] ++ (if cb then [.callback] else []) ++ expectedLog dl ps cb a ps as

/-- **final_delivered** — however many response-pending replies precede it, a final reply that arrives
    inside its window is delivered; every wait uses `min(limit, deadline − now)` with limit P2* after the
    first pending reply; the callback runs once per pending reply, before the next wait. -/
theorem final_delivered (dl : Option Nat) (ps : Nat) (cb : Bool) (rid : Nat) (spr : Bool)
    (pend : List Frame) (fin : Frame) (extra : List Frame) (now single : Nat) (star : Bool)
    (hstar : star = true → single = ps)
    (hp : ∀ f ∈ pend, classify rid f.payload = .pending)
    (hf : classify rid fin.payload ≠ .pending)
    (ht : Spec.InTime dl ps now single (pend.map (·.arrival)) fin.arrival) :
    waitLoop dl ps cb rid spr now single star (pend ++ fin :: extra) =
      { log := expectedLog dl ps cb now single (pend.map (·.arrival)),
        tEnd := fin.arrival, outcome := finalOutcome rid spr fin.payload } := by
  induction pend generalizing now single star with
  | nil =>
    simp only [List.map_nil, Spec.InTime] at ht
    simp only [List.nil_append]
    rw [loop_final dl ps cb rid spr now single star fin extra hf ht.2]
    simp [expectedLog, Nat.max_eq_right ht.1]
  | cons f rest ih =>
    simp only [List.map_cons, Spec.InTime] at ht
    obtain ⟨h1, h2, h3⟩ := ht
    simp only [List.cons_append]
    rw [loop_pending dl ps cb rid spr now single star f _ (hp f (by simp)) h2]
    have hsingle : (if star = true then single else ps) = ps := by
      cases star <;> simp_all
    simp only [Nat.max_eq_right h1, hsingle]
    rw [ih f.arrival ps true (fun _ => rfl) (fun g hg => hp g (by simp [hg])) h3]
    simp [expectedLog]

/-- **timeout_exact** — if after `pend` in-time pending replies nothing arrives inside the next window,
    the request times out exactly at the end of that window (or returns None under suppression). -/
theorem timeout_exact (dl : Option Nat) (ps : Nat) (cb : Bool) (rid : Nat) (spr : Bool)
    (pend : List Frame) (rest : List Frame) (now single : Nat) (star : Bool)
    (hstar : star = true → single = ps)
    (hp : ∀ f ∈ pend, classify rid f.payload = .pending)
    (ht : Spec.Silent dl ps now single (pend.map (·.arrival)) (rest.head?.map (·.arrival))) :
    let lw := Spec.lastWait dl ps now single (pend.map (·.arrival))
    let r := waitLoop dl ps cb rid spr now single star (pend ++ rest)
    r.log = expectedLog dl ps cb now single (pend.map (·.arrival)) ∧
    r.tEnd = lw.1 + lw.2 ∧
    (spr = false → ∃ k, r.outcome = .raised .timeout none (some k)) ∧ (spr = true → r.outcome = .none) := by
  induction pend generalizing now single star with
  | nil =>
    simp only [List.map_nil, Spec.Silent] at ht
    simp only [List.nil_append, List.map_nil, Spec.lastWait]
    rw [loop_silent dl ps cb rid spr now single star rest (by
      intro f hf; exact ht f.arrival (by simp [hf]))]
    refine ⟨by simp [expectedLog], rfl, ?_, ?_⟩
    · intro h; simp [h]
    · intro h; simp [h]
  | cons f tl ih =>
    simp only [List.map_cons, Spec.Silent] at ht
    obtain ⟨h1, h2, h3⟩ := ht
    simp only [List.cons_append, List.map_cons, Spec.lastWait]
    rw [loop_pending dl ps cb rid spr now single star f _ (hp f (by simp)) h2]
    have hsingle : (if star = true then single else ps) = ps := by
      cases star <;> simp_all
    simp only [Nat.max_eq_right h1, hsingle]
    have := ih f.arrival ps true (fun _ => rfl) (fun g hg => hp g (by simp [hg])) h3
    simp only at this
    obtain ⟨a, b, c, d⟩ := this
    refine ⟨by simp [expectedLog, a], b, c, d⟩

/-- **never_past_deadline** — with an overall limit, the call ends no later than the deadline,
    whatever arrives and whenever. -/
theorem never_past_deadline (d ps : Nat) (cb : Bool) (rid : Nat) (spr : Bool) (now single : Nat) (star : Bool)
    (arr : List Frame) (h : now ≤ d) :
    (waitLoop (some d) ps cb rid spr now single star arr).tEnd ≤ d := by
  induction arr generalizing now single star with
  | nil =>
    rw [waitLoop]; simp only [window_is_min, Spec.win]; omega
  | cons f rest ih =>
    rw [waitLoop]
    simp only [window_is_min, Spec.win]
    split
    · rename_i hin
      have ht : max now f.arrival ≤ d := by omega
      cases hcl : classifyResp rid (Response.fromPayload f.payload) <;> simp only []
      all_goals first | exact ht | exact ih _ _ _ ht
    · simp only []; omega

/-- every wait the loop issues is bounded by the applicable single limit and ends by the deadline -/
theorem waits_bounded (dl : Option Nat) (ps : Nat) (cb : Bool) (rid : Nat) (spr : Bool) (now single : Nat) (star : Bool)
    (arr : List Frame) :
    ∀ t τ, Op.wait t τ ∈ (waitLoop dl ps cb rid spr now single star arr).log →
      τ ≤ max single ps ∧ (∀ d, dl = some d → t + τ ≤ max t d) := by
  induction arr generalizing now single star with
  | nil =>
    intro t τ hm
    rw [waitLoop] at hm
    simp only [window_is_min, List.mem_singleton, Op.wait.injEq] at hm
    obtain ⟨rfl, rfl⟩ := hm
    refine ⟨?_, ?_⟩
    · unfold Spec.win; cases dl <;> simp <;> omega
    · intro d hd; subst hd; simp [Spec.win]; omega
  | cons f rest ih =>
    intro t τ hm
    have hbase : ∀ t τ, Op.wait t τ ∈ [Op.wait now (Spec.win dl now single)] →
        τ ≤ max single ps ∧ (∀ d, dl = some d → t + τ ≤ max t d) := by
      intro t τ hm
      simp only [List.mem_singleton, Op.wait.injEq] at hm
      obtain ⟨rfl, rfl⟩ := hm
      refine ⟨?_, ?_⟩
      · unfold Spec.win; cases dl <;> simp <;> omega
      · intro d hd; subst hd; simp [Spec.win]; omega
    rw [waitLoop] at hm
    simp only [window_is_min] at hm
    split at hm
    · cases hcl : classifyResp rid (Response.fromPayload f.payload) <;> simp only [hcl] at hm
      case pending =>
        simp only [List.mem_append, List.mem_singleton] at hm
        rcases hm with (hm | hm) | hm
        · exact hbase t τ (by simp [hm])
        · split at hm <;> simp at hm
        · have := ih _ _ _ t τ hm
          refine ⟨?_, this.2⟩
          have h1 := this.1
          cases star <;> simp at h1 <;> omega
      all_goals exact hbase t τ hm
    · exact hbase t τ hm

/-! ### the whole call: which limits apply -/

/-- the first wait uses `min(P2, request timeout)` (server P2 when adopted); a per-call timeout
    replaces both P2 and the overall limit -/
theorem first_window (cfg : SendCfg) (st : ClientState) (req : Request) (svc : Service) (perCall : Option Nat)
    (arr : List Frame) (hs : req.service = some svc)
    (hnospr : st.spr.enabled = false) (hreq : req.spr = false) (p : Bytes) (hp : req.getPayload none = .ok p) :
    ∃ rest, (sendRequest cfg st req perCall arr).log =
      [.flush, .send (match st.override with | some m => m.apply p | none => p),
       .wait 0 (Spec.firstSingle cfg.requestTimeout (p2Eff cfg st) perCall)] ++ rest := by
  unfold sendRequest
  simp only [hs, hnospr, Bool.false_and, Bool.false_eq_true, if_false, hp, hreq, Bool.or_self]
  have key : ∀ (dl : Option Nat) (single : Nat) ps cb rid,
      ∃ rest, (waitLoop dl ps cb rid false 0 single false arr).log = Op.wait 0 (Spec.win dl 0 single) :: rest := by
    intro dl single ps cb rid
    cases arr with
    | nil => exact ⟨[], by rw [waitLoop]; simp [window_is_min]⟩
    | cons f rest =>
      rw [waitLoop]
      simp only [window_is_min]
      split
      · cases hcl : classifyResp rid (Response.fromPayload f.payload) <;> simp only []
        all_goals first | exact ⟨[], rfl⟩ | exact ⟨_, rfl⟩
      · exact ⟨[], rfl⟩
  cases perCall with
  | some τ =>
    obtain ⟨rest, hr⟩ := key (some τ) τ (p2starEff cfg st) cfg.hasCallback (svc.sid + 0x40)
    refine ⟨rest, ?_⟩
    simp only [hr, Spec.firstSingle, Spec.win]
    simp
    try rfl
  | none =>
    cases hrt : cfg.requestTimeout with
    | none =>
      obtain ⟨rest, hr⟩ := key none (p2Eff cfg st) (p2starEff cfg st) cfg.hasCallback (svc.sid + 0x40)
      refine ⟨rest, ?_⟩
      simp only [hr, Spec.firstSingle, Spec.win]
      simp
      try rfl
    | some o =>
      obtain ⟨rest, hr⟩ := key (some o) (min o (p2Eff cfg st)) (p2starEff cfg st) cfg.hasCallback (svc.sid + 0x40)
      refine ⟨rest, ?_⟩
      simp only [hr, Spec.firstSingle, Spec.win]
      simp
      exact ⟨by cases st.override <;> rfl, by omega⟩

/-! ### non-vacuity -/
example : Spec.InTime (some 100) 50 0 10 [5, 40] 80 := by
  simp [Spec.InTime, Spec.win]
example : classify 0x51 [0x7F, 0x11, 0x78] = .pending ∧ classify 0x51 [0x51, 0x01] = .positive := by decide

end Uds.Props.C05
