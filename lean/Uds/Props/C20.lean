import Uds.Spec.Names
import Uds.Model.Tables
/-
  C20 — identifier-to-name lookups are faithful for every identifier value.

  The code's lookups are finite functions; their *complete graphs* are regenerated from /repo on every
  run (`Uds/Generated/Names.lean`, `Tables.lean`) and `Uds/Tie/Names.lean` proves them equal to the Spec
  graphs.  The theorems here say what the Spec lookups mean, for every identifier.
-/
namespace Uds.Props.C20
open Uds Uds.Spec

/-! ### 16-bit range tables -/

private theorem lookup_total_of_contiguous (t : List Seg) (n : Nat) (h : contiguous n t = true) (i : Nat)
    (h1 : n ≤ i) (h2 : i < 65536) : (segLookup t i).isSome = true := by
  induction t generalizing n with
  | nil => simp [contiguous] at h; omega
  | cons s rest ih =>
    obtain ⟨lo, hi, nm⟩ := s
    simp only [contiguous, Bool.and_eq_true, beq_iff_eq, decide_eq_true_eq] at h
    obtain ⟨⟨hlo, hle⟩, hrest⟩ := h
    by_cases hi' : i ≤ hi
    · simp [segLookup, List.find?, hlo, h1, hi']
    · have := ih (hi+1) hrest (by omega)
      simp only [segLookup, List.find?] at this ⊢
      have hf : (decide (lo ≤ i) && decide (i ≤ hi)) = false := by simp [hi']
      simp only [hf]
      exact this

theorem did_table_partition : contiguous 0 didSegs = true := by decide +kernel
theorem rid_table_partition : contiguous 0 ridSegs = true := by decide +kernel

/-- every 16-bit data identifier has a name (never `None`, never an error) -/
theorem did_name_total (i : Nat) (h : i < 65536) : (segLookup didSegs i).isSome = true :=
  lookup_total_of_contiguous didSegs 0 did_table_partition i (by omega) h

theorem rid_name_total (i : Nat) (h : i < 65536) : (segLookup ridSegs i).isSome = true :=
  lookup_total_of_contiguous ridSegs 0 rid_table_partition i (by omega) h

/-- a returned category name belongs to a table row whose inclusive range holds the identifier -/
theorem seg_name_sound (t : List Seg) (i : Nat) (n : String) (h : segLookup t i = some n) :
    ∃ lo hi, (lo, hi, n) ∈ t ∧ lo ≤ i ∧ i ≤ hi := by
  unfold segLookup at h
  cases hf : t.find? (fun s => s.1 ≤ i && i ≤ s.2.1) with
  | none => simp [hf] at h
  | some s =>
    obtain ⟨lo, hi, nm⟩ := s
    simp [hf] at h
    subst h
    have hm := List.mem_of_find?_eq_some hf
    have hp := List.find?_some hf
    simp at hp
    exact ⟨lo, hi, hm, hp.1, hp.2⟩

/-- the rows of a contiguous table do not overlap, so that row is the only one holding `i`:
    stated as "the first row holding `i` is returned" together with contiguity above -/
theorem seg_name_first (t : List Seg) (i : Nat) (lo hi : Nat) (n : String) (pre post : List Seg)
    (ht : t = pre ++ (lo, hi, n) :: post) (hin : lo ≤ i ∧ i ≤ hi)
    (hpre : ∀ s ∈ pre, ¬ (s.1 ≤ i ∧ i ≤ s.2.1)) : segLookup t i = some n := by
  subst ht
  unfold segLookup
  rw [List.find?_append]
  have : pre.find? (fun s => decide (s.1 ≤ i) && decide (i ≤ s.2.1)) = none := by
    rw [List.find?_eq_none]; intro s hs; simpa using hpre s hs
  simp [this, hin.1, hin.2]

/-! ### subfunction tables (every table, every value) -/

/-- a value that has an exact constant gets the name of a constant defined for exactly that value -/
theorem subfn_exact (t : SubfnTable) (v : Nat) (n : String) (h : (n, Member.exact v) ∈ t.members) :
    ∃ n', (n', Member.exact v) ∈ t.members ∧ subfnName t v = n' := by
  unfold subfnName
  cases hf : t.members.find? (fun m => m.2.isExact v) with
  | none =>
    rw [List.find?_eq_none] at hf
    have := hf _ h
    simp [Member.isExact] at this
  | some m =>
    have hm := List.mem_of_find?_eq_some hf
    have hp := List.find?_some hf
    obtain ⟨nm, mem⟩ := m
    cases mem with
    | exact x =>
      simp [Member.isExact] at hp; subst hp
      exact ⟨nm, hm, rfl⟩
    | range lo hi => simp [Member.isExact] at hp

/-- a range constant's name is returned only for values inside its inclusive range; otherwise the
    custom fallback -/
theorem subfn_no_exact (t : SubfnTable) (v : Nat) (h : ∀ n, (n, Member.exact v) ∉ t.members) :
    (∃ n lo hi, (n, Member.range lo hi) ∈ t.members ∧ lo ≤ v ∧ v ≤ hi ∧ subfnName t v = n) ∨
    ((∀ n lo hi, (n, Member.range lo hi) ∈ t.members → ¬ (lo ≤ v ∧ v ≤ hi)) ∧ subfnName t v = "Custom " ++ t.pretty) := by
  unfold subfnName
  have h1 : t.members.find? (fun m => m.2.isExact v) = none := by
    rw [List.find?_eq_none]
    intro m hm
    obtain ⟨nm, mem⟩ := m
    cases mem with
    | exact x =>
      simp only [Member.isExact, beq_iff_eq]
      intro hx; subst hx; exact h nm hm
    | range lo hi => simp [Member.isExact]
  simp only [h1]
  cases hf : t.members.find? (fun m => m.2.inRange v) with
  | some m =>
    left
    have hm := List.mem_of_find?_eq_some hf
    have hp := List.find?_some hf
    obtain ⟨nm, mem⟩ := m
    cases mem with
    | exact x => simp [Member.inRange] at hp
    | range lo hi =>
      simp [Member.inRange] at hp
      exact ⟨nm, lo, hi, hm, hp.1, hp.2, rfl⟩
  | none =>
    right
    rw [List.find?_eq_none] at hf
    refine ⟨?_, rfl⟩
    intro n lo hi hm hc
    have := hf _ hm
    simp [Member.inRange] at this
    omega

/-! ### the values ISO 14229-1 assigns to the named sub-function constants -/

/-- the ISO table is unambiguous: looked up in itself, every ISO value (every value of an ISO range) has its own name -/
theorem iso_tables_unambiguous : isoTied isoSubfn = true := by decide +kernel

/-- what the tie `Tie.Names.subfn_iso` (`isoTied Generated.subfnTables = true`) means: for every ISO table the library
    has the table of that class, defines every ISO constant with the ISO value, and its lookup answers every ISO value —
    and every value inside an ISO range — with the ISO name -/
theorem iso_tied_sound (gs : List SubfnTable) (h : isoTied gs = true) (t : SubfnTable) (ht : t ∈ isoSubfn) :
    ∃ g ∈ gs, g.cls = t.cls ∧
      (∀ n v, (n, Member.exact v) ∈ t.members → (n, Member.exact v) ∈ g.members ∧ subfnName g v = n) ∧
      (∀ n lo hi, (n, Member.range lo hi) ∈ t.members →
        (n, Member.range lo hi) ∈ g.members ∧ ∀ v, lo ≤ v → v ≤ hi → subfnName g v = n) := by
  unfold isoTied at h
  rw [List.all_eq_true] at h
  have h1 := h t ht
  cases hf : gs.find? (fun g => g.cls == t.cls) with
  | none => simp [hf] at h1
  | some g =>
    simp only [hf, Bool.and_eq_true] at h1
    obtain ⟨hd, hn⟩ := h1
    have hg := List.mem_of_find?_eq_some hf
    have hc := List.find?_some hf
    refine ⟨g, hg, by simpa using hc, ?_, ?_⟩
    · intro n v hm
      unfold isoDefined at hd
      unfold isoNamed at hn
      rw [List.all_eq_true] at hd hn
      have a := hd _ hm
      have b := hn _ hm
      refine ⟨by simpa using a, by simpa using b⟩
    · intro n lo hi hm
      unfold isoDefined at hd
      unfold isoNamed at hn
      rw [List.all_eq_true] at hd hn
      have a := hd _ hm
      have b := hn _ hm
      refine ⟨by simpa using a, ?_⟩
      intro v h1 h2
      simp only [List.all_eq_true, List.mem_range, beq_iff_eq] at b
      have := b (v - lo) (by omega)
      rwa [show lo + (v - lo) = v by omega] at this

/-! ### response codes -/

/-- `rcName` returns the name of a constant defined for exactly this code when one exists (several
    constants may alias a value), and the decimal fallback otherwise -/
theorem rc_name_faithful (c : Nat) :
    (Model.rcName c ∈ namesFor Model.rcTable c) ∨ (namesFor Model.rcTable c = [] ∧ Model.rcName c = toString c) := by
  unfold Model.rcName namesFor
  cases hf : Model.rcTable.find? (fun m => m.2 == c) with
  | some m =>
    left
    have hm := List.mem_of_find?_eq_some hf
    have hp := List.find?_some hf
    simp only [List.mem_map, List.mem_filter]
    exact ⟨m, ⟨hm, hp⟩, rfl⟩
  | none =>
    right
    rw [List.find?_eq_none] at hf
    refine ⟨?_, rfl⟩
    simp only [List.map_eq_nil_iff, List.filter_eq_nil_iff]
    exact hf

/-! ### non-vacuity -/
example : segLookup didSegs 0xF190 = some "VINDataIdentifier" := by decide +kernel
example : segLookup ridSegs 0xFF01 = some "CheckProgrammingDependencies" := by decide +kernel
example : Model.rcName 0x38 = "GeneralSecurityViolation" ∧ Model.rcName 0x95 = "149" := by
  constructor <;> decide +kernel

example : ∃ t ∈ isoSubfn, t.cls = "ECUReset.ResetType" ∧ ("hardReset", Member.exact 1) ∈ t.members := by decide +kernel

end Uds.Props.C20
