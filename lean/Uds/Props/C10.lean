import Uds.Model.History
import Uds.Spec.Timing
import Uds.Lemmas.Bytes
/-
  C10 — server P2/P2* are adopted only from an accepted session change, correctly scaled.
-/
namespace Uds.Props.C10
open Uds Uds.Model

private theorem bind_ok {α β : Type} {x : Py α} {f : α → Py β} {b : β} (h : (x >>= f) = .ok b) :
    ∃ a, x = .ok a ∧ f a = .ok b := by
  cases x with
  | error e => simp [bind, Except.bind] at h
  | ok a => exact ⟨a, rfl, by simpa [bind, Except.bind] using h⟩

/-- only a session-change call can yield server timing -/
theorem post_timing_only_session (std : Nat) (e : Entry) (d : Bytes) (t : Nat × Nat)
    (h : e.post std d = .ok (some t)) : ∃ n, e = .changeSession n := by
  cases e
  case changeSession n => exact ⟨n, rfl⟩
  all_goals
    simp only [Entry.post] at h
    first
      | (obtain ⟨_, _, h2⟩ := bind_ok h; simp [pure, Except.pure] at h2)
      | simp [pure, Except.pure] at h

/-- what an accepted session-change reply carries: echo = requested session; from 2013 on exactly four
    timing bytes, P2 = first 16-bit field (ms), P2* = second 16-bit field × 10 (ms) -/
theorem session_post (std : Nat) (n : Int) (d : Bytes) (t : Option (Nat × Nat))
    (h : (Entry.changeSession n).post std d = .ok t) :
    (∃ b, d[0]? = some b ∧ (b.toNat : Int) = n) ∧
    (std ≤ 2006 → t = none) ∧
    (2013 ≤ std → d.length = 5 ∧ t = some (fromBE (slice d 1 3), fromBE (slice d 3 5) * 10)) := by
  simp only [Entry.post] at h
  obtain ⟨sd, hsd, h2⟩ := bind_ok h
  simp only [dscInterpret] at hsd
  obtain ⟨e, he, h3⟩ := bind_ok hsd
  have hecho : ∃ b, d[0]? = some b ∧ b.toNat = e := by
    simp only [echo1] at he
    split at he
    · simp [throw, throwThe, MonadExceptOf.throw] at he
    · rename_i hl
      have hl' : 0 < d.length := by omega
      simp only [idx_ok hl', bind, Except.bind, pure, Except.pure, Except.ok.injEq] at he
      exact ⟨d[0], by simp [hl'], he⟩
  obtain ⟨b, hb0, hbe⟩ := hecho
  by_cases hstd : std ≥ 2013
  · simp only [hstd, if_true] at h3
    split at h3
    · simp [throw, throwThe, MonadExceptOf.throw] at h3
    · rename_i hlen
      simp only [pure, Except.pure, Except.ok.injEq] at h3
      subst h3
      simp only at h2
      split at h2
      · simp [throw, throwThe, MonadExceptOf.throw, bind, Except.bind] at h2
      · rename_i hne
        have hgt : std > 2006 := by omega
        simp only [hgt, if_true, bind, Except.bind, pure, Except.pure, Except.ok.injEq] at h2
        refine ⟨⟨b, hb0, ?_⟩, by omega, fun _ => ⟨by omega, h2.symm⟩⟩
        simp only [bne_iff_ne, ne_eq, Decidable.not_not] at hne
        rw [hbe]; exact hne.symm
  · simp only [hstd, if_false, pure, Except.pure, Except.ok.injEq] at h3
    subst h3
    simp only at h2
    split at h2
    · simp [throw, throwThe, MonadExceptOf.throw, bind, Except.bind] at h2
    · rename_i hne
      simp only [bne_iff_ne, ne_eq, Decidable.not_not] at hne
      refine ⟨⟨b, hb0, by rw [hbe]; exact hne.symm⟩, ?_, by omega⟩
      intro h06
      have : ¬ std > 2006 := by omega
      simp [this, bind, Except.bind, pure, Except.pure] at h2
      exact h2.symm

/-- **else_unchanged** — the client state changes only through an accepted session change under a
    post-2006 edition with server timing enabled; in particular a negative, invalid, unexpected or
    timed-out reply, any other request, the 2006 edition and `use_server_timing = False` change nothing -/
theorem state_changes_only_on_accept (cfg : CallCfg) (st : ClientState) (e : Entry) (arr : List Frame)
    (h : (callInner cfg st e arr).st ≠ st) :
    ∃ n resp, e = .changeSession n ∧ (callInner cfg st e arr).inner = .ret (some resp) ∧
      cfg.std > 2006 ∧ cfg.useServerTiming = true := by
  unfold callInner at h ⊢
  cases hm : e.makeRequest cfg.std with
  | error err => simp [hm] at h
  | ok req =>
    simp only [hm] at h ⊢
    cases ho : (sendRequest cfg.send st req none arr).outcome with
    | none => simp [ho] at h
    | raised a b c => simp [ho] at h
    | resp r =>
      simp only [ho] at h ⊢
      cases hp : e.post cfg.std r.data with
      | error err => simp [hp] at h
      | ok t =>
        simp only [hp] at h ⊢
        cases t with
        | none => simp at h
        | some t =>
          obtain ⟨n, hn⟩ := post_timing_only_session _ _ _ _ hp
          cases hu : cfg.useServerTiming
          · simp [hu] at h
          · refine ⟨n, r, hn, rfl, ?_, rfl⟩
            subst hn
            have := (session_post cfg.std n r.data _ hp).2.1
            by_cases h06 : cfg.std ≤ 2006
            · exact absurd (this h06) (by simp)
            · omega

/-- **adopt** — when the session change is accepted under 2013/2020 with server timing enabled, the
    timings in force become P2 = a·1 ms and P2* = b·10 ms (in ticks: × `msNum / msDen`); nothing else changes -/
theorem adopted_values (cfg : CallCfg) (st : ClientState) (n : Int) (arr : List Frame) (resp : Response)
    (h : (callInner cfg st (.changeSession n) arr).inner = .ret (some resp))
    (hstd : 2013 ≤ cfg.std) (hu : cfg.useServerTiming = true) :
    resp.data.length = 5 ∧
    (callInner cfg st (.changeSession n) arr).st =
      { st with timing := some (fromBE (slice resp.data 1 3) * cfg.msNum / cfg.msDen,
                                fromBE (slice resp.data 3 5) * 10 * cfg.msNum / cfg.msDen) } := by
  unfold callInner at h ⊢
  cases hm : (Entry.changeSession n).makeRequest cfg.std with
  | error err => simp [hm] at h
  | ok req =>
    simp only [hm] at h ⊢
    cases ho : (sendRequest cfg.send st req none arr).outcome with
    | none => simp [ho] at h
    | raised a b c => simp [ho] at h
    | resp r =>
      simp only [ho] at h ⊢
      cases hp : (Entry.changeSession n).post cfg.std r.data with
      | error err => simp [hp] at h
      | ok t =>
        simp only [hp] at h ⊢
        have hr : r = resp := by simpa using h
        subst hr
        obtain ⟨hlen, ht⟩ := (session_post cfg.std n r.data t hp).2.2 hstd
        subst ht
        simp [hu, hlen]

/-- the timings in force for every later request are the adopted ones (else the configured ones) -/
theorem in_force (cfg : SendCfg) (st : ClientState) :
    p2Eff cfg st = (st.timing.map (·.1)).getD cfg.p2 ∧ p2starEff cfg st = (st.timing.map (·.2)).getD cfg.p2star := by
  unfold p2Eff p2starEff; cases st.timing <;> simp

/-- across a whole history: the only steps that can change the adopted timing are accepted session changes -/
theorem history_timing_step (s : HState) (op : HOp) (h : (hstep s op).1.cs.timing ≠ s.cs.timing) :
    ∃ n arr resp, op = .call (.changeSession n) arr ∧ (callInner s.cfg s.cs (.changeSession n) arr).inner = .ret (some resp) ∧
      s.cfg.std > 2006 ∧ s.cfg.useServerTiming = true := by
  cases op <;> simp only [hstep] at h <;> try (exact absurd rfl h)
  case call e arr =>
    have hne : (callInner s.cfg s.cs e arr).st ≠ s.cs := by
      intro hc; apply h; simp [hc]
    obtain ⟨n, resp, he, hi, h1, h2⟩ := state_changes_only_on_accept s.cfg s.cs e arr hne
    subst he
    exact ⟨n, arr, resp, rfl, hi, h1, h2⟩

/-! ### non-vacuity: an accepted reply `50 03 00 32 01 F4` gives P2 = 50 ms, P2* = 5000 ms -/
example : (callInner { send := ⟨none, 1000, 5000, false⟩ } {} (.changeSession 3) [⟨5, [0x50, 0x03, 0x00, 0x32, 0x01, 0xF4]⟩]).st.timing
    = some (50, 5000) := by decide

end Uds.Props.C10
