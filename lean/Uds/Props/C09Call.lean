import Uds.Props.C09
import Uds.Props.C06Call
/-
  C09 at call level, for every client method built on `callWith` (every service family with a sub-function): inside a suppress-positive-response
  block the method returns None — at once and whatever is in the air when not waiting for an NRC; after silence or an in-time positive reply when
  waiting (a negative reply surfaces: `C06.callWith_negative`).  A service without sub-function is unaffected by the block.
-/
namespace Uds.Props.C09
open Uds Uds.Model Uds.Props.C05 Uds.Props.C02

/-- not waiting for an NRC: None, one frame (the request's payload with bit 7), nothing read — for any interpretation and any arrivals -/
theorem callWith_suppressed_no_wait {α : Type} (cfg : SendCfg) (st : ClientState) (req : Request) (post : Bytes → Py α) (svc : Service)
    (arr : List Frame) (p : Bytes) (hs : req.service = some svc) (hu : svc.useSubfn = true) (hen : st.spr = ⟨true, false⟩)
    (hp : req.getPayload (some true) = .ok p) :
    callWith cfg st req post arr = .ret none ∧
    (sendRequest cfg st req none arr).log = [.flush, .send (match st.override with | some m => m.apply p | none => p)] := by
  have h := returns_none_no_wait cfg st req svc arr hs hu hen p hp
  unfold callWith
  rw [h]
  exact ⟨rfl, rfl⟩

/-- waiting for an NRC: an in-time positive reply of the service (after any number of in-time response-pending replies) gives None, not the reply -/
theorem callWith_wait_nrc_positive {α : Type} (cfg : SendCfg) (st : ClientState) (req : Request) (post : Bytes → Py α) (svc : Service) (p0 : Bytes)
    (pend : List Frame) (fin : Frame) (extra : List Frame)
    (hs : req.service = some svc) (hu : svc.useSubfn = true) (hen : st.spr = ⟨true, true⟩) (hp0 : req.getPayload none = .ok p0)
    (hp : ∀ f ∈ pend, classify (svc.sid + 0x40) f.payload = .pending) (hf : classify (svc.sid + 0x40) fin.payload = .positive)
    (ht : Spec.InTime cfg.requestTimeout (p2starEff cfg st) 0 (firstSingle cfg st) (pend.map (·.arrival)) fin.arrival) :
    callWith cfg st req post (pend ++ fin :: extra) = .ret none := by
  obtain ⟨p1, hp1⟩ := C06.payload_suppressed_exists req svc p0 hs hu hp0
  have hl := (wait_nrc_positive_or_silence cfg.requestTimeout (p2starEff cfg st) cfg.hasCallback (svc.sid + 0x40) pend 0 (firstSingle cfg st) false
    (by intro h; cases h) hp).1 fin extra hf ht
  unfold firstSingle at hl
  unfold callWith sendRequest
  simp only [hs, hen, hu, Bool.and_self, if_true, hp1, Bool.or_true, Bool.not_true, Bool.and_false, Bool.false_eq_true, if_false]
  cases hrt : cfg.requestTimeout <;> simp only [hrt] at hl ⊢ <;> rw [hl]

/-- waiting for an NRC: silence (after any number of in-time response-pending replies) gives None, not a timeout error -/
theorem callWith_wait_nrc_silence {α : Type} (cfg : SendCfg) (st : ClientState) (req : Request) (post : Bytes → Py α) (svc : Service) (p0 : Bytes)
    (pend rest : List Frame)
    (hs : req.service = some svc) (hu : svc.useSubfn = true) (hen : st.spr = ⟨true, true⟩) (hp0 : req.getPayload none = .ok p0)
    (hp : ∀ f ∈ pend, classify (svc.sid + 0x40) f.payload = .pending)
    (ht : Spec.Silent cfg.requestTimeout (p2starEff cfg st) 0 (firstSingle cfg st) (pend.map (·.arrival)) (rest.head?.map (·.arrival))) :
    callWith cfg st req post (pend ++ rest) = .ret none := by
  obtain ⟨p1, hp1⟩ := C06.payload_suppressed_exists req svc p0 hs hu hp0
  have hl := (wait_nrc_positive_or_silence cfg.requestTimeout (p2starEff cfg st) cfg.hasCallback (svc.sid + 0x40) pend 0 (firstSingle cfg st) false
    (by intro h; cases h) hp).2 rest ht
  unfold firstSingle at hl
  unfold callWith sendRequest
  simp only [hs, hen, hu, Bool.and_self, if_true, hp1, Bool.or_true, Bool.not_true, Bool.and_false, Bool.false_eq_true, if_false]
  cases hrt : cfg.requestTimeout <;> simp only [hrt] at hl ⊢ <;> rw [hl]

/-- a service without sub-function: the block changes nothing — same frame, same handling, same result -/
theorem callWith_no_subfn_unchanged {α : Type} (cfg : SendCfg) (st : ClientState) (req : Request) (post : Bytes → Py α) (svc : Service) (arr : List Frame)
    (hs : req.service = some svc) (hu : svc.useSubfn = false) (w1 w2 e : Bool) :
    callWith cfg { st with spr := ⟨e, w1⟩ } req post arr = callWith cfg { st with spr := ⟨false, w2⟩ } req post arr := by
  unfold callWith
  rw [no_subfn_unchanged cfg st req svc arr hs hu w1 w2 e]

/-! ### non-vacuity -/
example : callWith ⟨some 2000, 50, 500, false⟩ { spr := ⟨true, false⟩ } (mkReq "RoutineControl" (some 1) (some [0x12, 0x34])) (fun d => routineControlPost 0x1234 1 d)
    [⟨1, [0x71, 0x01, 0x12, 0x34]⟩] = .ret none := by decide +kernel
example : callWith ⟨some 2000, 50, 500, false⟩ { spr := ⟨true, true⟩ } (mkReq "RoutineControl" (some 1) (some [0x12, 0x34])) (fun d => routineControlPost 0x1234 1 d)
    [⟨1, [0x7F, 0x31, 0x78]⟩, ⟨400, [0x71, 0x01, 0x12, 0x34]⟩] = .ret none := by decide +kernel

end Uds.Props.C09
