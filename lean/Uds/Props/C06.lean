import Uds.Props.C05
import Uds.Props.C17
import Uds.Model.Client
/-
  C06 — every negative response code ends the request as negative; only 0x78 prolongs.
-/
namespace Uds.Props.C06
open Uds Uds.Model Uds.Props.C05

/-- a negative-response frame for service `s` with code `c` and arbitrary trailing bytes -/
def nrcFrame (s : Service) (c : UInt8) (tail : Bytes) : Bytes := 0x7F :: UInt8.ofNat s.sid :: c :: tail

/-- parsing it yields exactly that service and code (with the code's standard name), never positive -/
theorem parse_nrc (s : Service) (hs : s ∈ services) (c : UInt8) (tail : Bytes) :
    Response.fromPayload (nrcFrame s c tail) =
      { service := some s, positive := false, code := some c.toNat, codeName := rcName c.toNat, valid := true,
        reason := "", data := tail } := by
  have hreq := C17.request_id_unambiguous s hs
  have hlt : s.sid < 256 := by have := (C17.response_id_unambiguous s hs).2.1; omega
  simp only [nrcFrame, Response.fromPayload, bne_self_eq_false, Bool.false_eq_true, if_false,
    List.getElem?_cons_succ, List.getElem?_cons_zero, toNat_ofNat_lt hlt, hreq]
  cases tail <;> simp

/-- for the pending request's own service: 0x78 keeps it pending, every other code 0x00–0xFF is a
    negative final answer (code 0x00 inside a 0x7F frame included) -/
theorem classify_nrc (s : Service) (hs : s ∈ services) (c : UInt8) (tail : Bytes) :
    classify (s.sid + 0x40) (nrcFrame s c tail) = if c = 0x78 then .pending else .negative c.toNat := by
  unfold classify classifyResp
  rw [parse_nrc s hs c tail]
  simp only [Bool.not_true, Bool.false_eq_true, if_false, bne_self_eq_false, Bool.not_false, if_true]
  by_cases h : c = 0x78
  · subst h; simp
  · have : ¬ (c.toNat = 0x78) := by
      intro hc; apply h
      exact UInt8.toNat_inj.mp (by simpa using hc)
    simp [h, this]

/-- **nrc_surfaces** — after any number `k` of in-time 0x78 frames, a negative frame with any other code
    ends the request as negative with exactly that code and its name; the callback ran once per 0x78,
    each before the next wait. -/
theorem nrc_surfaces (s : Service) (hs : s ∈ services) (c : UInt8) (hc : c ≠ 0x78) (tail : Bytes)
    (dl : Option Nat) (ps : Nat) (cb : Bool) (spr : Bool)
    (pend : List Frame) (hp : ∀ f ∈ pend, ∃ t, f.payload = nrcFrame s 0x78 t)
    (tfin : Nat) (extra : List Frame) (now single : Nat) (star : Bool) (hstar : star = true → single = ps)
    (ht : Spec.InTime dl ps now single (pend.map (·.arrival)) tfin) :
    let r := waitLoop dl ps cb (s.sid + 0x40) spr now single star (pend ++ ⟨tfin, nrcFrame s c tail⟩ :: extra)
    r.outcome = .raised (.negative c.toNat)
      (some { service := some s, positive := false, code := some c.toNat, codeName := rcName c.toNat,
              valid := true, reason := "", data := tail }) none ∧
    r.tEnd = tfin ∧
    r.log = expectedLog dl ps cb now single (pend.map (·.arrival)) := by
  have hpend : ∀ f ∈ pend, classify (s.sid + 0x40) f.payload = .pending := by
    intro f hf
    obtain ⟨t, ht⟩ := hp f hf
    rw [ht, classify_nrc s hs]; simp
  have hfin : classify (s.sid + 0x40) (nrcFrame s c tail) = .negative c.toNat := by
    rw [classify_nrc s hs]; simp [hc]
  have := final_delivered dl ps cb (s.sid + 0x40) spr pend ⟨tfin, nrcFrame s c tail⟩ extra now single star hstar hpend
    (by simp [hfin]) ht
  simp only [this, finalOutcome, hfin, parse_nrc s hs c tail]
  exact ⟨trivial, trivial, trivial⟩

/-- the number of callback invocations in `expectedLog` is the number of 0x78 frames (when a callback is
    configured), and each sits between the wait it interrupted and the next wait -/
theorem callbacks_once_each (dl : Option Nat) (ps : Nat) (now single : Nat) (arr : List Nat) :
    ((expectedLog dl ps true now single arr).filter (· == .callback)).length = arr.length ∧
    ((expectedLog dl ps false now single arr).filter (· == .callback)).length = 0 := by
  induction arr generalizing now single with
  | nil => simp [expectedLog]
  | cons a as ih =>
    have := ih a ps
    simp [expectedLog, List.filter_cons, this.1, this.2]

/-- **nrc78_never_surfaces** — whatever arrives, the caller never sees a negative response with code
    0x78; a negative outcome always carries a valid, non-positive response with exactly the reported code -/
theorem negative_outcome_sound (dl : Option Nat) (ps : Nat) (cb : Bool) (rid : Nat) (spr : Bool) (now single : Nat)
    (star : Bool) (arr : List Frame) (c : Nat) (r : Option Response) (k : Option TimeoutKind)
    (h : (waitLoop dl ps cb rid spr now single star arr).outcome = .raised (.negative c) r k) :
    c ≠ 0x78 ∧ ∃ r', r = some r' ∧ r'.valid = true ∧ r'.positive = false ∧ r'.code = some c := by
  induction arr generalizing now single star with
  | nil =>
    rw [waitLoop] at h
    simp only [] at h
    split at h <;> simp at h
  | cons f rest ih =>
    rw [waitLoop] at h
    simp only [] at h
    split at h
    · cases hcl : classifyResp rid (Response.fromPayload f.payload) <;> simp only [hcl] at h
      case negative c' =>
        simp only [SendOutcome.raised.injEq, PyErr.negative.injEq] at h
        obtain ⟨rfl, rfl, _⟩ := h
        unfold classifyResp at hcl
        cases hv : (Response.fromPayload f.payload).valid
        · simp [hv] at hcl
        · simp only [hv, Bool.not_true, Bool.false_eq_true, if_false] at hcl
          cases hs : (Response.fromPayload f.payload).service with
          | none => simp [hs] at hcl
          | some s =>
            cases hc : (Response.fromPayload f.payload).code with
            | none => simp [hs, hc] at hcl
            | some c0 =>
              simp only [hs, hc] at hcl
              split at hcl
              · simp at hcl
              · cases hp : (Response.fromPayload f.payload).positive
                · simp only [hp, Bool.not_false, if_true] at hcl
                  split at hcl
                  · simp at hcl
                  · rename_i h78
                    simp only [FrameClass.negative.injEq] at hcl
                    subst hcl
                    exact ⟨by simpa using h78, _, rfl, hv, hp, hc⟩
                · simp [hp] at hcl
      case pending => exact ih _ _ _ h
      all_goals (first | (split at h <;> simp at h) | simp at h)
    · simp only [] at h
      split at h <;> simp at h

/-- delivered to the caller (either switch setting): still negative with that code, never success -/
theorem negative_delivered (sw : Switches) (r : Response) (c : Nat) (hv : r.valid = true) (hc : r.code = some c) :
    (deliver sw (.exc (.negative c) (some r))).verdict = .negative c := by
  cases h : sw.neg <;> simp [deliver, h, Outer.verdict, hv, hc]

/-! ### non-vacuity -/
example : classify 0x51 (nrcFrame ⟨"ECUReset", 0x11, true, true⟩ 0x00 [1, 2]) = .negative 0 := by decide
example : classify 0x51 (nrcFrame ⟨"ECUReset", 0x11, true, true⟩ 0x95 []) = .negative 0x95 := by decide

end Uds.Props.C06
