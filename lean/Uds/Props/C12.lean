import Uds.Model.Rig
import Uds.Lemmas.Py
import Uds.Lemmas.Bytes
import Uds.Props.C14
import Uds.Props.C03
import Uds.Lemmas.DidCodec
/-
  C12 — data written through the client is read back unchanged through a reference ECU.

  The client model (`Uds.Model.Rig`: request builders + `send_request` classification + interpreters/checks) is composed with
  the reference ECU (`Uds.Spec.Ecu`, written from the standard).  Theorems, for *every* ECU state before (i.e. after any
  history), every configuration and all values / addresses / sizes / widths / block lengths:

    * did_write_read_back      a value written to a data identifier is read back equal through the same codec configuration
    * mem_write_read_back      bytes written to a memory range are read back identical (the two calls may use different widths)
    * download_reassembled     download + any block sequence (counter wraps past 0xFF) + exit = the original bytes at the address
    * upload_streams_memory    upload of a range + enough pulls returns exactly the bytes the ECU holds there
    * codec_roundtrip / value_survives_history   the library's own codecs (pack string, ASCII): decode (encode v) = v, refusal instead of wrapping,
                               and the value-level read-back through them
    * *_survives_history       … and the read-back still holds after any interleaved sequence of calls (successful or failing)
                               that does not itself overwrite the identifier / the memory

  The model client keeps nothing between calls; that the real client keeps nothing either is what the history
  correspondence of the C12 suite checks (same histories through the real client and through this model, same ECU).
-/
namespace Uds.Props.C12
open Uds Uds.Model Uds.Spec

/-! ## the ECU's memory -/

theorem memGet_cons (k a : Nat) (v : UInt8) (m : Mem) : memGet ((k, v) :: m) a = if k = a then v else memGet m a := by
  unfold memGet
  by_cases h : k = a
  · simp [h, List.find?]
  · have : ((k, v).1 == a) = false := by simpa using h
    simp [List.find?, this, h]

theorem memRead_cons_lt (k : Nat) (v : UInt8) (m : Mem) (a n : Nat) (h : k < a) : memRead ((k, v) :: m) a n = memRead m a n := by
  induction n generalizing a with
  | zero => rfl
  | succ n ih =>
    simp only [memRead]
    rw [memGet_cons, if_neg (by omega), ih (a + 1) (by omega)]

/-- **what is written to a range is what is read from it** -/
theorem memRead_write (m : Mem) (a : Nat) (bs : Bytes) : memRead (memWrite m a bs) a bs.length = bs := by
  induction bs generalizing a with
  | nil => rfl
  | cons b bs ih =>
    simp only [memWrite, List.length_cons, memRead]
    rw [memGet_cons, if_pos rfl, memRead_cons_lt _ _ _ _ _ (by omega), ih]

theorem memRead_append (m : Mem) (a n k : Nat) : memRead m a (n + k) = memRead m a n ++ memRead m (a + n) k := by
  induction n generalizing a with
  | zero => simp [memRead]
  | succ n ih =>
    rw [show n + 1 + k = (n + k) + 1 by omega]
    simp only [memRead, List.cons_append]
    rw [ih (a + 1), show a + 1 + n = a + (n + 1) by omega]

theorem memRead_length (m : Mem) (a n : Nat) : (memRead m a n).length = n := by
  induction n generalizing a with
  | zero => rfl
  | succ n ih => simp [memRead, ih]

theorem ecu_writeMem (e : Ecu) (ml : MemLoc) (w data : Bytes) (hA : Uds.Props.C14.Width ml.alfidA) (hM : Uds.Props.C14.Width ml.alfidM) (h : ml.wire = .ok w)
    (hl : data.length = ml.size.toNat) :
    e.step (0x3D :: (w ++ data)) = ({ e with mem := memWrite e.mem ml.address.toNat data }, [0x7D] ++ w) := by
  obtain ⟨hd, hwl, _, _⟩ := Uds.Props.C14.wire_decodes ml w data hA hM h
  simp only [Ecu.step]
  simp only [show ((0x3D : UInt8) == 0x2E) = false by decide, show ((0x3D : UInt8) == 0x22) = false by decide,
    show ((0x3D : UInt8) == 0x3D) = true by decide, Bool.false_eq_true, if_false, if_true, Ecu.onWriteMem, hd]
  simp only [hl, ne_eq, not_true_eq_false, if_false]
  rw [show 1 + ml.alfidA / 8 + ml.alfidM / 8 = w.length by omega, List.take_left']
  rfl

theorem ecu_readMem (e : Ecu) (ml : MemLoc) (w : Bytes) (hA : Uds.Props.C14.Width ml.alfidA) (hM : Uds.Props.C14.Width ml.alfidM) (h : ml.wire = .ok w) :
    e.step (0x23 :: w) = (e, [0x63] ++ memRead e.mem ml.address.toNat ml.size.toNat) := by
  obtain ⟨hd, _, _, _⟩ := Uds.Props.C14.wire_decodes ml w [] hA hM h
  rw [List.append_nil] at hd
  simp only [Ecu.step]
  simp only [show ((0x23 : UInt8) == 0x2E) = false by decide, show ((0x23 : UInt8) == 0x22) = false by decide,
    show ((0x23 : UInt8) == 0x3D) = false by decide, show ((0x23 : UInt8) == 0x23) = true by decide, Bool.false_eq_true, if_false, if_true, Ecu.onReadMem, hd]
  simp

def posResp (svc : Service) (data : Bytes) : Response :=
  { service := some svc, positive := true, code := some 0, codeName := rcName 0, valid := true, reason := "", data := data }

theorem classifyReply_positive (svc : Service) (b : UInt8) (data : Bytes) (hb : (b != 0x7F) = true)
    (hf : fromResponseId b.toNat = some svc) (hd : data ≠ [] ∨ svc.hasRespData = false) :
    classifyReply svc (b :: data) = .ok (posResp svc data) := by
  have hlen : ¬ ((b :: data).length < 2 && svc.hasRespData) = true := by
    rcases hd with hd | hd
    · cases data with
      | nil => exact absurd rfl hd
      | cons x xs => simp; omega
    · simp [hd]
  have hdat : (if (b :: data).length > 1 then (b :: data).drop 1 else []) = data := by cases data <;> simp
  have hr : Response.fromPayload (b :: data) = posResp svc data := by
    simp only [Response.fromPayload, hb, if_true, hf, hlen, Bool.false_eq_true, if_false, hdat, posResp]
  unfold classifyReply
  simp only [reduceCtorEq, if_false, hr, classifyResp, posResp, Bool.not_true, Bool.false_eq_true, bne_self_eq_false]
  rfl

theorem ready_ok {cfg : RigCfg} {a s : Int} {af mf : Option Int} {ml : MemLoc} (h : MemLoc.ready cfg a s af mf = .ok ml) :
    Uds.Props.C14.Width ml.alfidA ∧ Uds.Props.C14.Width ml.alfidM ∧ ml.address = a ∧ ml.size = s := by
  unfold MemLoc.ready at h
  simp only [bind_ok] at h
  obtain ⟨ml0, h0, h1⟩ := h
  obtain ⟨_, _, wa, wm, ha, hs⟩ := Uds.Props.C14.width_resolution a s af mf cfg.caf cfg.cmf ml0 ml h0 h1
  exact ⟨wa, wm, ha, hs⟩

theorem svc3D : fromRequestId 0x3D = some ⟨"WriteMemoryByAddress", 0x3D, false, true⟩ := by decide
theorem svc23 : fromRequestId 0x23 = some ⟨"ReadMemoryByAddress", 0x23, false, true⟩ := by decide
theorem rsp7D : fromResponseId 0x7D = some ⟨"WriteMemoryByAddress", 0x3D, false, true⟩ := by decide
theorem rsp63 : fromResponseId 0x63 = some ⟨"ReadMemoryByAddress", 0x23, false, true⟩ := by decide

theorem exchange_pos (ecu e' : Ecu) (req : Request) (svc : Service) (p data : Bytes) (b : UInt8)
    (hp : req.getPayload none = .ok p) (hs : req.service = some svc) (hst : ecu.step p = (e', b :: data))
    (hb : (b != 0x7F) = true) (hf : fromResponseId b.toNat = some svc) (hd : data ≠ [] ∨ svc.hasRespData = false) :
    exchange ecu req = (e', .ok (posResp svc data)) := by
  unfold exchange
  rw [hp, hs]
  simp only [hst, classifyReply_positive svc b data hb hf hd]

theorem rigStep_ok (cfg : RigCfg) (e e' : Ecu) (c : RCall) (req : Request) (resp : Response)
    (hr : c.request cfg = .ok req) (hx : exchange e req = (e', .ok resp)) : rigStep cfg e c = (e', c.interpret cfg resp.data) := by
  unfold rigStep
  rw [hr]
  simp only [hx]

/-- **memory written through the client is read back identical** (any ECU state before, any two valid width choices) -/
theorem mem_write_read_back (cfg : RigCfg) (e : Ecu) (a s : Int) (af mf af' mf' : Option Int) (data : Bytes) (ml ml' : MemLoc) (w w' : Bytes)
    (h1 : MemLoc.ready cfg a s af mf = .ok ml) (hw : ml.wire = .ok w)
    (h2 : MemLoc.ready cfg a s af' mf' = .ok ml') (hw' : ml'.wire = .ok w')
    (hl : data.length = s.toNat) (hs : 0 < s) :
    let e1 : Ecu := { e with mem := memWrite e.mem a.toNat data }
    rigStep cfg e (.writeMem a s af mf data) = (e1, .ok (.wm ⟨ml.alfidByte, a.toNat, s.toNat⟩)) ∧
    rigStep cfg e1 (.readMem a s af' mf') = (e1, .ok (.sd (.readMem data))) := by
  obtain ⟨wa, wm, ha, hsz⟩ := ready_ok h1
  obtain ⟨wa', wm', ha', hsz'⟩ := ready_ok h2
  have wne : w ≠ [] := by
    obtain ⟨_, hl', _⟩ := Uds.Props.C14.wire_decodes ml w [] wa wm hw
    intro h0; rw [h0] at hl'; simp at hl'; omega
  have dne : data ≠ [] := by intro h0; rw [h0] at hl; simp at hl; omega
  constructor
  · have hreq : RCall.request cfg (.writeMem a s af mf data) = .ok { service := fromRequestId 0x3D, data := some (w ++ data) } := by
      simp [RCall.request, h1, writeMemMakeRequest, hw, bind, Except.bind, pure, Except.pure]
    have hpay : ({ service := fromRequestId 0x3D, data := some (w ++ data) } : Request).getPayload none = .ok (0x3D :: (w ++ data)) := by
      simp [Request.getPayload, svc3D, packB, bind, Except.bind, pure, Except.pure]
    have hstep := ecu_writeMem e ml w data wa wm hw (by rw [hsz]; exact hl)
    rw [ha] at hstep
    have hx := exchange_pos e _ _ _ _ w 0x7D hpay svc3D hstep (by decide) rsp7D (Or.inl wne)
    rw [rigStep_ok cfg e _ _ _ _ hreq hx]
    have hpost := Uds.Props.C14.echo_symmetric ml w [] hw
    rw [List.append_nil, ha, hsz] at hpost
    simp [RCall.interpret, h1, posResp, hpost, bind, Except.bind, pure, Except.pure]
  · have hreq : RCall.request cfg (.readMem a s af' mf') = .ok { service := fromRequestId 0x23, data := some w' } := by
      simp [RCall.request, h2, readMemMakeRequest, hw', bind, Except.bind, pure, Except.pure]
    have hpay : ({ service := fromRequestId 0x23, data := some w' } : Request).getPayload none = .ok (0x23 :: w') := by
      simp [Request.getPayload, svc23, packB, bind, Except.bind, pure, Except.pure]
    have hstep := ecu_readMem { e with mem := memWrite e.mem a.toNat data } ml' w' wa' wm' hw'
    rw [ha', hsz'] at hstep
    simp only at hstep
    rw [← hl, memRead_write] at hstep
    have hx := exchange_pos _ _ _ _ _ data 0x63 hpay svc23 hstep (by decide) rsp63 (Or.inl dne)
    rw [rigStep_ok cfg _ _ _ _ _ hreq hx]
    have hs' : ¬ s ≤ 0 := by omega
    simp [RCall.interpret, h2, posResp, readMemClient, readMemInterpret, guardPy, hs', hsz', hl, bind, Except.bind, pure, Except.pure]
theorem toBE2 (n : Nat) : toBE 2 n = [UInt8.ofNat (n / 256 % 256), UInt8.ofNat (n % 256)] := by
  simp [toBE]

theorem ecu_wdbi (e : Ecu) (did : Nat) (v : Bytes) (hd : did < 65536) (hv : v ≠ []) :
    e.step (0x2E :: (toBE 2 did ++ v)) = ({ e with dids := (did, v) :: e.dids }, [0x6E] ++ toBE 2 did) := by
  have hlen : ¬ (toBE 2 did ++ v).length < 3 := by
    cases v with
    | nil => exact absurd rfl hv
    | cons x xs => simp; omega
  have ht : (toBE 2 did ++ v).take 2 = toBE 2 did := by
    rw [List.take_append_of_le_length (by simp)]; exact List.take_of_length_le (by simp)
  have hdr : (toBE 2 did ++ v).drop 2 = v := by
    rw [List.drop_append_of_le_length (by simp)]
    simp [List.drop_of_length_le]
  simp only [Ecu.step, Ecu.onWdbi, show ((0x2E : UInt8) == 0x2E) = true by decide, if_true, hlen, if_false, ht, hdr,
    fromBE_toBE_of_lt (show did < 256 ^ 2 by omega)]

theorem didGet_head (l : List (Nat × Bytes)) (did : Nat) (v : Bytes) : didGet ((did, v) :: l) did = some v := by
  simp [didGet, List.find?]

theorem ecu_rdbi1 (e : Ecu) (did : Nat) (v : Bytes) (hd : did < 65536) (hg : didGet e.dids did = some v) :
    e.step (0x22 :: toBE 2 did) = (e, [0x62] ++ toBE 2 did ++ v) := by
  have hf : fromBE [UInt8.ofNat (did / 256 % 256), UInt8.ofNat (did % 256)] = did := by
    rw [← toBE2]; exact fromBE_toBE_of_lt (show did < 256 ^ 2 by omega)
  simp only [Ecu.step, Ecu.onRdbi, show ((0x22 : UInt8) == 0x2E) = false by decide, show ((0x22 : UInt8) == 0x22) = true by decide,
    Bool.false_eq_true, if_false, if_true, toBE2, List.length_cons, List.length_nil, readDids, hf, hg]
  simp

theorem rdbiLoop_single (c : DidCfg) (tol : Bool) (did : Nat) (v : Bytes) (l : Option Nat) (hd : did < 65536)
    (hf : fetchCodec c did = .ok l) (hl : ∀ n, l = some n → v.length = n) (hv : v ≠ [])
    (hz : ¬ (did = 0 ∧ c.entries.any (·.1 == 0) = false ∧ tol = true ∧ allZero (toBE 2 did ++ v) = true)) :
    rdbiLoop c tol (toBE 2 did ++ v) [] = .ok [(did, v)] := by
  have hlen : (toBE 2 did ++ v).length = 2 + v.length := by simp
  have hvl : 0 < v.length := by cases v with | nil => exact absurd rfl hv | cons => simp
  have ht : (toBE 2 did ++ v).take 2 = toBE 2 did := by
    rw [List.take_append_of_le_length (by simp)]; exact List.take_of_length_le (by simp)
  have hdr : (toBE 2 did ++ v).drop 2 = v := by
    rw [List.drop_append_of_le_length (by simp)]
    simp [List.drop_of_length_le]
  have hu : unpackBE 2 (toBE 2 did) = .ok did := by
    simp [unpackBE, fromBE_toBE_of_lt (show did < 256 ^ 2 by omega), pure, Except.pure]
  have hcond : (did == 0 && !c.entries.any (·.1 == 0) && tol && allZero (toBE 2 did ++ v)) = false := by
    cases hc : (did == 0 && !c.entries.any (·.1 == 0) && tol && allZero (toBE 2 did ++ v)) with
    | false => rfl
    | true =>
      exfalso; apply hz
      simp only [Bool.and_eq_true, beq_iff_eq, Bool.not_eq_true'] at hc
      exact ⟨hc.1.1.1, hc.1.1.2, hc.1.2, hc.2⟩
  rw [rdbiLoop]
  rw [dif_neg (by omega), dif_neg (by omega)]
  cases l with
  | none =>
    simp only [ht, hu, bind, Except.bind, hcond, Bool.false_eq_true, if_false, hf, hdr, Nat.lt_irrefl, List.drop_length, List.take_length]
    rw [rdbiLoop]
    rw [dif_pos (by rfl)]
    simp [dictSet, pure, Except.pure]
  | some n =>
    have := hl n rfl
    subst this
    simp only [ht, hu, bind, Except.bind, hcond, Bool.false_eq_true, if_false, hf, hdr, Nat.lt_irrefl, List.drop_length, List.take_length]
    rw [rdbiLoop]
    rw [dif_pos (by rfl)]
    simp [dictSet, pure, Except.pure]

theorem rdbiClient_single (c : DidCfg) (tol : Bool) (did : Nat) (v : Bytes) (l : Option Nat) (hd : did < 65536)
    (hfind : c.find did = some l) (hl : ∀ n, l = some n → v.length = n) (hv : v ≠ [])
    (hz : ¬ (did = 0 ∧ c.entries.any (·.1 == 0) = false ∧ tol = true ∧ allZero (toBE 2 did ++ v) = true)) :
    rdbiClient c tol [did] (toBE 2 did ++ v) = .ok (.rdbi [(did, v)]) := by
  have hf : fetchCodec c did = .ok l := by simp [fetchCodec, hfind, pure, Except.pure]
  have hi : rdbiInterpret c tol [did] (toBE 2 did ++ v) = .ok (.rdbi [(did, v)]) := by
    simp [rdbiInterpret, checkDidConfig, hfind, rdbiLoop_single c tol did v l hd hf hl hv hz, bind, Except.bind, pure, Except.pure]
  unfold rdbiClient
  rw [hi]
  simp [pure, Except.pure]

theorem svcW : svc "WriteDataByIdentifier" = ⟨"WriteDataByIdentifier", 0x2E, false, true⟩ := by decide
theorem svcR : svc "ReadDataByIdentifier" = ⟨"ReadDataByIdentifier", 0x22, false, true⟩ := by decide
theorem rsp6E : fromResponseId 0x6E = some ⟨"WriteDataByIdentifier", 0x2E, false, true⟩ := by decide
theorem rsp62 : fromResponseId 0x62 = some ⟨"ReadDataByIdentifier", 0x22, false, true⟩ := by decide

theorem payload_nosf' (name : String) (d : Bytes) (s : Service) (hs : svc name = s) (hu : s.useSubfn = false) (hsid : s.sid < 256) :
    (mkReq name none (some d)).getPayload none = .ok (UInt8.ofNat s.sid :: d) ∧ (mkReq name none (some d)).service = some s := by
  subst hs
  simp [mkReq, Request.getPayload, hu, packB, hsid, bind, Except.bind, pure, Except.pure]

/-- **a value written to a data identifier is read back equal through the same codec configuration** (any ECU state before).
    Excluded: the documented ambiguity of identifier 0x0000 served by the `default` codec with an all-zero value while zero padding is tolerated. -/
theorem did_write_read_back (cfg : RigCfg) (e : Ecu) (did : Int) (v : Bytes) (l : Option Nat) (hd0 : 0 ≤ did) (hd : did ≤ 0xFFFF)
    (hfind : cfg.dids.find did.toNat = some l) (hl : ∀ n, l = some n → v.length = n) (hv : v ≠ [])
    (hz : ¬ (did.toNat = 0 ∧ cfg.dids.entries.any (·.1 == 0) = false ∧ cfg.tol = true ∧ allZero (toBE 2 did.toNat ++ v) = true)) :
    let e1 : Ecu := { e with dids := (did.toNat, v) :: e.dids }
    rigStep cfg e (.wdbi did v) = (e1, .ok (.sd (.wdbi did.toNat))) ∧
    rigStep cfg e1 (.rdbi [did]) = (e1, .ok (.sd (.rdbi [(did.toNat, v)]))) := by
  have hlt : did.toNat < 65536 := by omega
  have hf : fetchCodec cfg.dids did.toNat = .ok l := by simp [fetchCodec, hfind, pure, Except.pure]
  have hcfg : checkDidConfig (some cfg.dids) [did.toNat] = .ok cfg.dids := by simp [checkDidConfig, hfind, pure, Except.pure]
  constructor
  · have henc : encodeVal l v = .ok v := by
      cases l with
      | none => rfl
      | some n => simp [encodeVal, hl n rfl, pure, Except.pure]
    have hv' : validateInt did 0 0xFFFF = .ok () := validateInt_ok.2 ⟨hd0, hd⟩
    have hreq : RCall.request cfg (.wdbi did v) = .ok (mkReq "WriteDataByIdentifier" none (some (toBE 2 did.toNat ++ v))) := by
      simp [RCall.request, wdbiMakeRequest, hv', hcfg, hf, henc, bind, Except.bind, pure, Except.pure]
    obtain ⟨hpay, hsvc⟩ := payload_nosf' "WriteDataByIdentifier" (toBE 2 did.toNat ++ v) _ svcW rfl (by decide)
    have hstep := ecu_wdbi e did.toNat v hlt hv
    have hx := exchange_pos e _ _ _ _ (toBE 2 did.toNat) 0x6E hpay hsvc hstep (by decide) rsp6E (Or.inl (by simp [toBE2]))
    rw [rigStep_ok cfg e _ _ _ _ hreq hx]
    have hu : unpackBE 2 (toBE 2 did.toNat) = .ok did.toNat := by
      simp [unpackBE, fromBE_toBE_of_lt (show did.toNat < 256 ^ 2 by omega), pure, Except.pure]
    simp [RCall.interpret, posResp, wdbiClient, wdbiInterpret, guardPy, hu, List.take_of_length_le, bind, Except.bind, pure, Except.pure]
  · have hreq : RCall.request cfg (.rdbi [did]) = .ok (mkReq "ReadDataByIdentifier" none (some (toBE 2 did.toNat))) := by
      have hv' : validateInt did 0 0xFFFF = .ok () := validateInt_ok.2 ⟨hd0, hd⟩
      have hall : rdbiCheckReadAll cfg.dids [did.toNat] false = .ok () := by
        cases l <;> simp [rdbiCheckReadAll, hf, bind, Except.bind, pure, Except.pure]
      simp [RCall.request, rdbiMakeRequest, validateDidList, hv', rdbiValidateCfg, hcfg, hall, beList, bind, Except.bind, pure, Except.pure]
    obtain ⟨hpay, hsvc⟩ := payload_nosf' "ReadDataByIdentifier" (toBE 2 did.toNat) _ svcR rfl (by decide)
    have hstep := ecu_rdbi1 { e with dids := (did.toNat, v) :: e.dids } did.toNat v hlt (didGet_head _ _ _)
    rw [List.append_assoc] at hstep
    have hx := exchange_pos _ _ _ _ _ (toBE 2 did.toNat ++ v) 0x62 hpay hsvc hstep (by decide) rsp62 (Or.inl (by simp [toBE2]))
    rw [rigStep_ok cfg _ _ _ _ _ hreq hx]
    have := rdbiClient_single cfg.dids cfg.tol did.toNat v l hlt hfind hl hv hz
    simp [RCall.interpret, posResp, this, bind, Except.bind, pure, Except.pure]

/-! ### download / transfer-data / transfer-exit -/

def xferOpen (addr size : Nat) : Xfer := { addr := addr, size := size, next := 1, buf := [], upload := false, sent := 0 }

theorem ecu_download (e : Ecu) (ml : MemLoc) (w : Bytes) (dfi : UInt8) (hA : Uds.Props.C14.Width ml.alfidA) (hM : Uds.Props.C14.Width ml.alfidM) (h : ml.wire = .ok w) :
    e.step (0x34 :: dfi :: w) = ({ e with xfer := some (xferOpen ml.address.toNat ml.size.toNat) }, [0x74, 0x20, 0x0F, 0xFF]) := by
  obtain ⟨hd, _, _, _⟩ := Uds.Props.C14.wire_decodes ml w [] hA hM h
  rw [List.append_nil] at hd
  simp only [Ecu.step, Ecu.onXferReq, show ((0x34 : UInt8) == 0x2E) = false by decide, show ((0x34 : UInt8) == 0x22) = false by decide,
    show ((0x34 : UInt8) == 0x3D) = false by decide, show ((0x34 : UInt8) == 0x23) = false by decide,
    show ((0x34 : UInt8) == 0x34 || (0x34 : UInt8) == 0x35) = true by decide, Bool.false_eq_true, if_false, if_true, hd]
  simp [xferOpen]

theorem ecu_transfer (e : Ecu) (x : Xfer) (seq : UInt8) (data : Bytes) (hx : e.xfer = some x) (hu : x.upload = false)
    (hs : seq.toNat = x.next) (hl : x.buf.length + data.length ≤ x.size) :
    e.step (0x36 :: seq :: data) = ({ e with xfer := some { x with next := (x.next + 1) % 256, buf := x.buf ++ data } }, [0x76, seq]) := by
  simp only [Ecu.step, Ecu.onTransfer, show ((0x36 : UInt8) == 0x2E) = false by decide, show ((0x36 : UInt8) == 0x22) = false by decide,
    show ((0x36 : UInt8) == 0x3D) = false by decide, show ((0x36 : UInt8) == 0x23) = false by decide,
    show ((0x36 : UInt8) == 0x34 || (0x36 : UInt8) == 0x35) = false by decide, show ((0x36 : UInt8) == 0x36) = true by decide,
    Bool.false_eq_true, if_false, if_true, hx, hs, hu, ne_eq, not_true_eq_false]
  rw [if_neg (by omega)]

theorem ecu_exit (e : Ecu) (x : Xfer) (hx : e.xfer = some x) (hu : x.upload = false) (hl : x.buf.length = x.size) :
    e.step [0x37] = ({ e with mem := memWrite e.mem x.addr x.buf, xfer := none }, [0x77]) := by
  simp only [Ecu.step, Ecu.onExit, show ((0x37 : UInt8) == 0x2E) = false by decide, show ((0x37 : UInt8) == 0x22) = false by decide,
    show ((0x37 : UInt8) == 0x3D) = false by decide, show ((0x37 : UInt8) == 0x23) = false by decide,
    show ((0x37 : UInt8) == 0x34 || (0x37 : UInt8) == 0x35) = false by decide, show ((0x37 : UInt8) == 0x36) = false by decide,
    show ((0x37 : UInt8) == 0x37) = true by decide,
    Bool.false_eq_true, if_false, if_true, hx, hu, hl, ne_eq, not_true_eq_false]

theorem svc34 : fromRequestId 0x34 = some ⟨"RequestDownload", 0x34, false, true⟩ := by decide
theorem rsp74 : fromResponseId 0x74 = some ⟨"RequestDownload", 0x34, false, true⟩ := by decide
theorem svcTD : svc "TransferData" = ⟨"TransferData", 0x36, false, true⟩ := by decide
theorem rsp76 : fromResponseId 0x76 = some ⟨"TransferData", 0x36, false, true⟩ := by decide
theorem svcTE : svc "RequestTransferExit" = ⟨"RequestTransferExit", 0x37, false, false⟩ := by decide
theorem rsp77 : fromResponseId 0x77 = some ⟨"RequestTransferExit", 0x37, false, false⟩ := by decide

theorem rig_download (cfg : RigCfg) (e : Ecu) (a s : Int) (af mf : Option Int) (dfi : Nat) (ml : MemLoc) (w : Bytes)
    (h1 : MemLoc.ready cfg a s af mf = .ok ml) (hw : ml.wire = .ok w) (hd : dfi < 256) :
    rigStep cfg e (.xferReq false a s af mf dfi) = ({ e with xfer := some (xferOpen a.toNat s.toNat) }, .ok (.sd (.xfer 0x0FFF))) := by
  obtain ⟨wa, wm, ha, hsz⟩ := ready_ok h1
  have hreq : RCall.request cfg (.xferReq false a s af mf dfi) = .ok { service := fromRequestId 0x34, data := some ([UInt8.ofNat dfi] ++ w) } := by
    simp [RCall.request, h1, requestXferMakeRequest, hw, packB, hd, bind, Except.bind, pure, Except.pure]
  have hpay : ({ service := fromRequestId 0x34, data := some ([UInt8.ofNat dfi] ++ w) } : Request).getPayload none = .ok (0x34 :: UInt8.ofNat dfi :: w) := by
    simp [Request.getPayload, svc34, packB, bind, Except.bind, pure, Except.pure]
  have hstep := ecu_download e ml w (UInt8.ofNat dfi) wa wm hw
  rw [ha, hsz] at hstep
  have hx := exchange_pos e _ _ _ _ [0x20, 0x0F, 0xFF] 0x74 hpay svc34 hstep (by decide) rsp74 (Or.inl (by simp))
  rw [rigStep_ok cfg e _ _ _ _ hreq hx]
  have : xferInterpret [0x20, 0x0F, 0xFF] = .ok (.xfer 0x0FFF) := by decide
  simp [RCall.interpret, posResp, this, bind, Except.bind, pure, Except.pure]

theorem rig_transfer (cfg : RigCfg) (e : Ecu) (x : Xfer) (n : Nat) (b : Bytes) (hn : n < 256) (hx : e.xfer = some x) (hu : x.upload = false)
    (hs : n = x.next) (hl : x.buf.length + b.length ≤ x.size) :
    rigStep cfg e (.simple (.transferData n (some b))) =
      ({ e with xfer := some { x with next := (x.next + 1) % 256, buf := x.buf ++ b } }, .ok (.sd (.transferData n []))) := by
  have hv : validateInt (n : Int) 0 0xFF = .ok () := validateInt_ok.2 ⟨by omega, by omega⟩
  have hreq : RCall.request cfg (.simple (.transferData n (some b))) = .ok (mkReq "TransferData" none (some ([UInt8.ofNat n] ++ b))) := by
    simp [RCall.request, Entry.makeRequest, transferDataMakeRequest, hv, bind, Except.bind, pure, Except.pure]
  obtain ⟨hpay, hsvc⟩ := payload_nosf' "TransferData" ([UInt8.ofNat n] ++ b) _ svcTD rfl (by decide)
  have hstep := ecu_transfer e x (UInt8.ofNat n) b hx hu (by rw [toNat_ofNat_lt hn]; exact hs) hl
  have hxc := exchange_pos e _ _ _ _ [UInt8.ofNat n] 0x76 hpay hsvc hstep (by decide) rsp76 (Or.inl (by simp))
  rw [rigStep_ok cfg e _ _ _ _ hreq hxc]
  simp [RCall.interpret, posResp, simpleClient, transferDataInterpret, guardPy, idx, toNat_ofNat_lt hn, bind, Except.bind, pure, Except.pure]

theorem rig_exit (cfg : RigCfg) (e : Ecu) (x : Xfer) (hx : e.xfer = some x) (hu : x.upload = false) (hl : x.buf.length = x.size) :
    rigStep cfg e (.simple (.transferExit none)) = ({ e with mem := memWrite e.mem x.addr x.buf, xfer := none }, .ok (.sd (.transferExit []))) := by
  have hreq : RCall.request cfg (.simple (.transferExit none)) = .ok (mkReq "RequestTransferExit" none none) := by
    simp [RCall.request, Entry.makeRequest, transferExitMakeRequest, pure, Except.pure]
  have hpay : (mkReq "RequestTransferExit" none none).getPayload none = .ok [0x37] ∧ (mkReq "RequestTransferExit" none none).service = some ⟨"RequestTransferExit", 0x37, false, false⟩ := by
    simp [mkReq, Request.getPayload, svcTE, packB, bind, Except.bind, pure, Except.pure]
  have hstep := ecu_exit e x hx hu hl
  have hxc := exchange_pos e _ _ _ _ [] 0x77 hpay.1 hpay.2 hstep (by decide) rsp77 (Or.inr rfl)
  rw [rigStep_ok cfg e _ _ _ _ hreq hxc]
  simp [RCall.interpret, posResp, simpleClient, pure, Except.pure, bind, Except.bind]

/-- push the blocks with consecutive block sequence counters starting at `n` (0xFF wraps to 0x00); `none` as soon as a call fails -/
def pushBlocks (cfg : RigCfg) (e : Ecu) (n : Nat) : List Bytes → Option Ecu
  | [] => some e
  | b :: bs =>
    match (rigStep cfg e (.simple (.transferData n (some b)))).2 with
    | .ok _ => pushBlocks cfg (rigStep cfg e (.simple (.transferData n (some b)))).1 ((n + 1) % 256) bs
    | .error _ => none

theorem push_ok (cfg : RigCfg) (e : Ecu) (x : Xfer) (n : Nat) (bs : List Bytes) (hx : e.xfer = some x) (hu : x.upload = false)
    (hn : n = x.next) (hn256 : n < 256) (hl : x.buf.length + bs.flatten.length ≤ x.size) :
    pushBlocks cfg e n bs = some { e with xfer := some { x with next := (x.next + bs.length) % 256, buf := x.buf ++ bs.flatten } } := by
  induction bs generalizing e x n with
  | nil =>
    subst hn
    simp only [pushBlocks, List.length_nil, Nat.add_zero, Nat.mod_eq_of_lt hn256, List.flatten_nil, List.append_nil]
    cases e; simp only at hx; subst hx; rfl
  | cons b bs ih =>
    simp only [List.flatten_cons, List.length_append] at hl
    have hstep := rig_transfer cfg e x n b hn256 hx hu hn (by omega)
    simp only [pushBlocks, hstep]
    rw [ih _ { x with next := (x.next + 1) % 256, buf := x.buf ++ b } ((n + 1) % 256) rfl hu (by subst hn; rfl) (Nat.mod_lt _ (by omega))
      (by simp only [List.length_append]; omega)]
    simp only [List.flatten_cons, List.length_cons, List.append_assoc]
    have : ((x.next + 1) % 256 + bs.length) % 256 = (x.next + (bs.length + 1)) % 256 := by omega
    rw [this]

/-- **a block sequence pushed with download / transfer-data / transfer-exit is reassembled into exactly the original bytes at the
    requested address**: any ECU state before, any number of blocks of any sizes (so the counter wraps past 0xFF), any valid widths -/
theorem download_reassembled (cfg : RigCfg) (e : Ecu) (a s : Int) (af mf : Option Int) (dfi : Nat) (ml : MemLoc) (w : Bytes) (blocks : List Bytes)
    (h1 : MemLoc.ready cfg a s af mf = .ok ml) (hw : ml.wire = .ok w) (hd : dfi < 256) (htotal : blocks.flatten.length = s.toNat) :
    ∃ e1 e2 e3, rigStep cfg e (.xferReq false a s af mf dfi) = (e1, .ok (.sd (.xfer 0x0FFF))) ∧
      pushBlocks cfg e1 1 blocks = some e2 ∧
      rigStep cfg e2 (.simple (.transferExit none)) = (e3, .ok (.sd (.transferExit []))) ∧
      memRead e3.mem a.toNat s.toNat = blocks.flatten ∧ e3.xfer = none ∧ e3.dids = e.dids := by
  have hA := rig_download cfg e a s af mf dfi ml w h1 hw hd
  have hB := push_ok cfg { e with xfer := some (xferOpen a.toNat s.toNat) } (xferOpen a.toNat s.toNat) 1 blocks rfl rfl rfl (by decide)
    (by simp [xferOpen, htotal])
  have hC := rig_exit cfg { e with xfer := some { xferOpen a.toNat s.toNat with next := (1 + blocks.length) % 256, buf := [] ++ blocks.flatten } }
    { xferOpen a.toNat s.toNat with next := (1 + blocks.length) % 256, buf := [] ++ blocks.flatten } rfl rfl (by simp [xferOpen, htotal])
  refine ⟨_, _, _, hA, hB, hC, ?_, rfl, rfl⟩
  simp only [xferOpen, List.nil_append]
  rw [← htotal, memRead_write]

/-! ## what a frame can change -/

theorem onRdbi_state (e : Ecu) (sid : UInt8) (b : Bytes) : (e.onRdbi sid b).1 = e := by
  unfold Ecu.onRdbi; split
  · rfl
  · split <;> rfl
theorem onReadMem_state (e : Ecu) (sid : UInt8) (b : Bytes) : (e.onReadMem sid b).1 = e := by
  unfold Ecu.onReadMem; split
  · rfl
  · split <;> rfl
theorem onWriteMem_dids (e : Ecu) (sid : UInt8) (b : Bytes) : (e.onWriteMem sid b).1.dids = e.dids := by
  unfold Ecu.onWriteMem; split
  · rfl
  · split <;> rfl
theorem onXferReq_keep (e : Ecu) (sid : UInt8) (b : Bytes) : (e.onXferReq sid b).1.dids = e.dids ∧ (e.onXferReq sid b).1.mem = e.mem := by
  unfold Ecu.onXferReq; split
  · exact ⟨rfl, rfl⟩
  · split
    · exact ⟨rfl, rfl⟩
    · split <;> exact ⟨rfl, rfl⟩
theorem onTransfer_keep (e : Ecu) (sid : UInt8) (b : Bytes) : (e.onTransfer sid b).1.dids = e.dids ∧ (e.onTransfer sid b).1.mem = e.mem := by
  unfold Ecu.onTransfer; split
  · exact ⟨rfl, rfl⟩
  · exact ⟨rfl, rfl⟩
  · split
    · exact ⟨rfl, rfl⟩
    · split
      · exact ⟨rfl, rfl⟩
      · split <;> exact ⟨rfl, rfl⟩
theorem onExit_dids (e : Ecu) (sid : UInt8) : (e.onExit sid).1.dids = e.dids := by
  unfold Ecu.onExit; split
  · rfl
  · split
    · rfl
    · split <;> rfl
theorem onWdbi_mem (e : Ecu) (sid : UInt8) (b : Bytes) : (e.onWdbi sid b).1.mem = e.mem := by
  unfold Ecu.onWdbi; split <;> rfl

theorem ne_of_head {sid : UInt8} {body : Bytes} {x : UInt8} (h : (sid :: body).head? ≠ some x) : (sid == x) = false := by
  cases hb : sid == x with
  | false => rfl
  | true => exfalso; apply h; simp at hb; simp [hb]

/-- only a WriteDataByIdentifier frame changes the stored records -/
theorem step_dids (e : Ecu) (f : Bytes) (h : f.head? ≠ some 0x2E) : (e.step f).1.dids = e.dids := by
  cases f with
  | nil => rfl
  | cons sid body =>
    simp only [Ecu.step, ne_of_head h, Bool.false_eq_true, if_false]
    split
    · rw [onRdbi_state]
    · split
      · exact onWriteMem_dids _ _ _
      · split
        · rw [onReadMem_state]
        · split
          · exact (onXferReq_keep _ _ _).1
          · split
            · exact (onTransfer_keep _ _ _).1
            · split
              · exact onExit_dids _ _
              · rfl

/-- only WriteMemoryByAddress and RequestTransferExit frames change the memory -/
theorem step_mem (e : Ecu) (f : Bytes) (h1 : f.head? ≠ some 0x3D) (h2 : f.head? ≠ some 0x37) : (e.step f).1.mem = e.mem := by
  cases f with
  | nil => rfl
  | cons sid body =>
    simp only [Ecu.step, ne_of_head h1, ne_of_head h2, Bool.false_eq_true, if_false]
    split
    · exact onWdbi_mem _ _ _
    · split
      · rw [onRdbi_state]
      · split
        · rw [onReadMem_state]
        · split
          · exact (onXferReq_keep _ _ _).2
          · split
            · exact (onTransfer_keep _ _ _).2
            · rfl

/-- a WriteDataByIdentifier frame for another identifier leaves this identifier's record alone -/
theorem step_dids_other (e : Ecu) (body : Bytes) (did : Nat) (h : fromBE (body.take 2) ≠ did) :
    didGet (e.step (0x2E :: body)).1.dids did = didGet e.dids did := by
  simp only [Ecu.step, Ecu.onWdbi, show ((0x2E : UInt8) == 0x2E) = true by decide, if_true]
  split
  · rfl
  · simp only [didGet, List.find?]
    have : (fromBE (body.take 2) == did) = false := by simpa using h
    simp [this]

/-! ## which frame a call sends -/

def Entry.sid : Entry → Nat
  | .changeSession _ => 0x10 | .ecuReset _ => 0x11 | .requestSeed _ _ => 0x27 | .sendKey _ _ => 0x27 | .testerPresent => 0x3E
  | .commControl _ _ _ => 0x28 | .accessTiming _ _ => 0x83 | .controlDtc _ _ => 0x85 | .linkControl _ _ => 0x87
  | .routineControl _ _ _ => 0x31 | .transferData _ _ => 0x36 | .transferExit _ => 0x37 | .clearDtc _ _ => 0x14

def RCall.sid : RCall → Nat
  | .wdbi _ _ => 0x2E | .rdbi _ => 0x22 | .writeMem _ _ _ _ _ => 0x3D | .readMem _ _ _ _ => 0x23
  | .xferReq up _ _ _ _ _ => if up then 0x35 else 0x34
  | .simple e => Entry.sid e

theorem simple_sid (std : Nat) (e : Entry) (r : Request) (hm : e.makeRequest std = .ok r) : ∃ s, r.service = some s ∧ s.sid = Entry.sid e := by
  cases e with
  | changeSession n =>
    simp only [Entry.makeRequest, dscMakeRequest, bind_ok, validateInt_ok, pure_ok] at hm
    obtain ⟨_, _, rfl⟩ := hm; exact ⟨_, rfl, (by simp only [Entry.sid]; decide)⟩
  | ecuReset t =>
    simp only [Entry.makeRequest, ecuResetMakeRequest, bind_ok, validateInt_ok, pure_ok] at hm
    obtain ⟨_, _, rfl⟩ := hm; exact ⟨_, rfl, (by simp only [Entry.sid]; decide)⟩
  | requestSeed l sp =>
    simp only [Entry.makeRequest, saMakeRequest, bind_ok, validateInt_ok, pure_ok] at hm
    obtain ⟨_, _, sf, hsf, rfl⟩ := hm; exact ⟨_, rfl, (by simp only [Entry.sid]; decide)⟩
  | sendKey l k =>
    simp only [Entry.makeRequest, saMakeRequest, bind_ok, validateInt_ok, pure_ok] at hm
    obtain ⟨_, _, sf, hsf, rfl⟩ := hm; exact ⟨_, rfl, (by simp only [Entry.sid]; decide)⟩
  | testerPresent =>
    simp only [Entry.makeRequest, testerPresentMakeRequest, pure_ok] at hm
    subst hm; exact ⟨_, rfl, (by simp only [Entry.sid]; decide)⟩
  | commControl ct c node =>
    simp only [Entry.makeRequest, commControlMakeRequest, bind_ok, ite_throw_bind_ok, validateInt_ok] at hm
    obtain ⟨_, hv, _, _, _, _, _, _, hm⟩ := hm
    cases node with
    | none => simp only [pure_ok] at hm; subst hm; exact ⟨_, rfl, (by simp only [Entry.sid]; decide)⟩
    | some x => simp only [bind_ok, pure_ok] at hm; obtain ⟨_, _, hm⟩ := hm; subst hm; exact ⟨_, rfl, (by simp only [Entry.sid]; decide)⟩
  | accessTiming t rec =>
    simp only [Entry.makeRequest, accessTimingMakeRequest, bind_ok, ite_throw_bind_ok, pure_ok, validateInt_ok] at hm
    obtain ⟨_, hv, _, _, hm⟩ := hm
    subst hm; exact ⟨_, rfl, (by simp only [Entry.sid]; decide)⟩
  | controlDtc t dd =>
    simp only [Entry.makeRequest, controlDtcMakeRequest, bind_ok, validateInt_ok, pure_ok] at hm
    obtain ⟨_, _, rfl⟩ := hm; exact ⟨_, rfl, (by simp only [Entry.sid]; decide)⟩
  | linkControl ct baud =>
    obtain ⟨hv, _, rfl⟩ := Uds.Props.C03.linkControl_shape ct baud r hm
    exact ⟨_, rfl, (by simp only [Entry.sid]; decide)⟩
  | routineControl rid ct dd =>
    simp only [Entry.makeRequest, routineControlMakeRequest, bind_ok, validateInt_ok, pure_ok] at hm
    obtain ⟨_, _, _, _, rfl⟩ := hm; exact ⟨_, rfl, (by simp only [Entry.sid]; decide)⟩
  | transferData sq dd =>
    simp only [Entry.makeRequest, transferDataMakeRequest, bind_ok, validateInt_ok, pure_ok] at hm
    obtain ⟨_, _, rfl⟩ := hm; exact ⟨_, rfl, (by simp only [Entry.sid]; decide)⟩
  | transferExit dd =>
    simp only [Entry.makeRequest, transferExitMakeRequest, pure_ok] at hm
    subst hm; exact ⟨_, rfl, (by simp only [Entry.sid]; decide)⟩
  | clearDtc g m =>
    simp only [Entry.makeRequest, clearDtcMakeRequest, bind_ok, validateInt_ok] at hm
    obtain ⟨_, _, hm⟩ := hm
    cases m with
    | none => simp only [pure_ok] at hm; subst hm; exact ⟨_, rfl, (by simp only [Entry.sid]; decide)⟩
    | some x =>
      simp only [bind_ok, ite_throw_bind_ok, pure_ok] at hm
      obtain ⟨_, _, _, hm⟩ := hm; subst hm; exact ⟨_, rfl, (by simp only [Entry.sid]; decide)⟩

theorem request_sid (cfg : RigCfg) (c : RCall) (req : Request) (h : c.request cfg = .ok req) : ∃ s, req.service = some s ∧ s.sid = RCall.sid c := by
  cases c with
  | wdbi did v =>
    simp only [RCall.request, wdbiMakeRequest, bind_ok, pure_ok] at h
    obtain ⟨_, _, _, _, _, _, _, _, rfl⟩ := h; exact ⟨_, rfl, (by simp only [RCall.sid]; decide)⟩
  | rdbi dids =>
    simp only [RCall.request, rdbiMakeRequest, bind_ok, pure_ok] at h
    obtain ⟨_, _, _, _, rfl⟩ := h; exact ⟨_, rfl, (by simp only [RCall.sid]; decide)⟩
  | writeMem a s af mf data =>
    simp only [RCall.request, writeMemMakeRequest, bind_ok, pure_ok] at h
    obtain ⟨_, _, _, _, rfl⟩ := h; exact ⟨⟨"WriteMemoryByAddress", 0x3D, false, true⟩, (by show fromRequestId 0x3D = _; decide), rfl⟩
  | readMem a s af mf =>
    simp only [RCall.request, readMemMakeRequest, bind_ok, pure_ok] at h
    obtain ⟨_, _, _, _, rfl⟩ := h; exact ⟨⟨"ReadMemoryByAddress", 0x23, false, true⟩, (by show fromRequestId 0x23 = _; decide), rfl⟩
  | xferReq up a s af mf dfi =>
    simp only [RCall.request, requestXferMakeRequest, bind_ok, pure_ok] at h
    obtain ⟨_, _, _, _, _, _, rfl⟩ := h
    cases up
    · exact ⟨⟨"RequestDownload", 0x34, false, true⟩, (by show fromRequestId 0x34 = _; decide), rfl⟩
    · exact ⟨⟨"RequestUpload", 0x35, false, true⟩, (by show fromRequestId 0x35 = _; decide), rfl⟩
  | simple e => exact simple_sid cfg.std e req h

/-! ## histories -/

/-- a call changes the ECU only through the one frame it sends (and not at all when the request is refused locally) -/
theorem rigStep_state (cfg : RigCfg) (e : Ecu) (c : RCall) :
    (rigStep cfg e c).1 = e ∨ ∃ req p s, c.request cfg = .ok req ∧ req.getPayload none = .ok p ∧ req.service = some s ∧
      (rigStep cfg e c).1 = (e.step p).1 := by
  unfold rigStep
  cases hr : c.request cfg with
  | error err => left; rfl
  | ok req =>
    simp only
    unfold exchange
    cases hp : req.getPayload none with
    | error err => left; rfl
    | ok p =>
      cases hs : req.service with
      | none => left; rfl
      | some s =>
        right
        refine ⟨req, p, s, rfl, hp, hs, ?_⟩
        simp only
        split <;> rfl

theorem payload_head (req : Request) (p : Bytes) (s : Service) (hp : req.getPayload none = .ok p) (hs : req.service = some s) :
    p.head? = some (UInt8.ofNat s.sid) ∧ s.sid < 256 := by
  unfold Request.getPayload at hp
  simp only [hs] at hp
  split at hp
  · split at hp
    · simp at hp
    · simp only [bind_ok, packB_ok, pure_ok] at hp
      obtain ⟨_, ⟨h1, rfl⟩, _, _, rfl⟩ := hp
      exact ⟨rfl, h1⟩
  · split at hp
    · simp at hp
    · simp only [bind_ok, packB_ok, pure_ok] at hp
      obtain ⟨_, ⟨h1, rfl⟩, rfl⟩ := hp
      exact ⟨rfl, h1⟩

theorem ofNat_inj_lt {a b : Nat} (ha : a < 256) (hb : b < 256) (h : UInt8.ofNat a = UInt8.ofNat b) : a = b := by
  have := congrArg UInt8.toNat h
  rwa [toNat_ofNat_lt ha, toNat_ofNat_lt hb] at this

/-- **a call that is not a write to this identifier leaves its stored record alone** — whether it succeeds, is refused
    locally, is answered negatively, or fails its echo checks -/
theorem rig_keeps_did (cfg : RigCfg) (e : Ecu) (c : RCall) (did : Nat) (h : ∀ d v, c = .wdbi d v → d.toNat ≠ did) :
    didGet (rigStep cfg e c).1.dids did = didGet e.dids did := by
  rcases rigStep_state cfg e c with h0 | ⟨req, p, s, hr, hp, hs, hst⟩
  · rw [h0]
  · rw [hst]
    obtain ⟨s', hs', hsid⟩ := request_sid cfg c req hr
    rw [hs] at hs'; cases hs'
    obtain ⟨hh, hlt⟩ := payload_head req p s hp hs
    cases c with
    | wdbi d v =>
      simp only [RCall.request, wdbiMakeRequest, bind_ok, validateInt_ok, pure_ok] at hr
      obtain ⟨_, ⟨d0, d1⟩, _, _, _, _, v', _, rfl⟩ := hr
      have hpay := (payload_nosf' "WriteDataByIdentifier" (toBE 2 d.toNat ++ v') _ svcW rfl (by decide)).1
      rw [hp] at hpay; cases hpay
      apply step_dids_other
      have : (toBE 2 d.toNat ++ v').take 2 = toBE 2 d.toNat := by
        rw [List.take_append_of_le_length (by simp)]; exact List.take_of_length_le (by simp)
      rw [this, fromBE_toBE_of_lt (show d.toNat < 256 ^ 2 by omega)]
      exact h d v rfl
    | _ =>
      rw [step_dids]
      rw [hh]
      intro hc
      have := ofNat_inj_lt hlt (by decide) (Option.some.inj hc)
      rw [hsid] at this
      first
        | (simp only [RCall.sid] at this; omega)
        | (simp only [RCall.sid] at this; split at this <;> omega)
        | skip
      all_goals (rename_i en; cases en <;> simp [RCall.sid, Entry.sid] at this)

def RCall.writesMem (c : RCall) : Bool := RCall.sid c == 0x3D || RCall.sid c == 0x37

/-- **a call that is neither a memory write nor a transfer exit leaves the memory alone** -/
theorem rig_keeps_mem (cfg : RigCfg) (e : Ecu) (c : RCall) (h : RCall.writesMem c = false) : (rigStep cfg e c).1.mem = e.mem := by
  rcases rigStep_state cfg e c with h0 | ⟨req, p, s, hr, hp, hs, hst⟩
  · rw [h0]
  · rw [hst]
    obtain ⟨s', hs', hsid⟩ := request_sid cfg c req hr
    rw [hs] at hs'; cases hs'
    obtain ⟨hh, hlt⟩ := payload_head req p s hp hs
    simp only [RCall.writesMem, Bool.or_eq_false_iff, beq_eq_false_iff_ne, ne_eq] at h
    apply step_mem
    · rw [hh]; intro hc
      have := ofNat_inj_lt hlt (by decide) (Option.some.inj hc)
      rw [hsid] at this; exact h.1 this
    · rw [hh]; intro hc
      have := ofNat_inj_lt hlt (by decide) (Option.some.inj hc)
      rw [hsid] at this; exact h.2 this

theorem history_keeps_did (cfg : RigCfg) (e : Ecu) (cs : List RCall) (did : Nat) (h : ∀ c ∈ cs, ∀ d v, c = .wdbi d v → d.toNat ≠ did) :
    didGet (rigRun cfg e cs).dids did = didGet e.dids did := by
  induction cs generalizing e with
  | nil => rfl
  | cons c cs ih =>
    simp only [rigRun, List.foldl_cons]
    have := ih (rigStep cfg e c).1 (fun c' hc' => h c' (by simp [hc']))
    simp only [rigRun] at this
    rw [this, rig_keeps_did cfg e c did (h c (by simp))]

theorem history_keeps_mem (cfg : RigCfg) (e : Ecu) (cs : List RCall) (h : ∀ c ∈ cs, RCall.writesMem c = false) :
    (rigRun cfg e cs).mem = e.mem := by
  induction cs generalizing e with
  | nil => rfl
  | cons c cs ih =>
    simp only [rigRun, List.foldl_cons]
    have := ih (rigStep cfg e c).1 (fun c' hc' => h c' (by simp [hc']))
    simp only [rigRun] at this
    rw [this, rig_keeps_mem cfg e c (h c (by simp))]

/-- reading an identifier returns whatever record the ECU holds for it -/
theorem rig_read_did (cfg : RigCfg) (e : Ecu) (did : Int) (v : Bytes) (l : Option Nat) (hd0 : 0 ≤ did) (hd : did ≤ 0xFFFF)
    (hfind : cfg.dids.find did.toNat = some l) (hl : ∀ n, l = some n → v.length = n) (hv : v ≠ [])
    (hz : ¬ (did.toNat = 0 ∧ cfg.dids.entries.any (·.1 == 0) = false ∧ cfg.tol = true ∧ allZero (toBE 2 did.toNat ++ v) = true))
    (hg : didGet e.dids did.toNat = some v) :
    rigStep cfg e (.rdbi [did]) = (e, .ok (.sd (.rdbi [(did.toNat, v)]))) := by
  have hlt : did.toNat < 65536 := by omega
  have hf : fetchCodec cfg.dids did.toNat = .ok l := by simp [fetchCodec, hfind, pure, Except.pure]
  have hcfg : checkDidConfig (some cfg.dids) [did.toNat] = .ok cfg.dids := by simp [checkDidConfig, hfind, pure, Except.pure]
  have hreq : RCall.request cfg (.rdbi [did]) = .ok (mkReq "ReadDataByIdentifier" none (some (toBE 2 did.toNat))) := by
    have hv' : validateInt did 0 0xFFFF = .ok () := validateInt_ok.2 ⟨hd0, hd⟩
    have hall : rdbiCheckReadAll cfg.dids [did.toNat] false = .ok () := by
      cases l <;> simp [rdbiCheckReadAll, hf, bind, Except.bind, pure, Except.pure]
    simp [RCall.request, rdbiMakeRequest, validateDidList, hv', rdbiValidateCfg, hcfg, hall, beList, bind, Except.bind, pure, Except.pure]
  obtain ⟨hpay, hsvc⟩ := payload_nosf' "ReadDataByIdentifier" (toBE 2 did.toNat) _ svcR rfl (by decide)
  have hstep := ecu_rdbi1 e did.toNat v hlt hg
  rw [List.append_assoc] at hstep
  have hx := exchange_pos _ _ _ _ _ (toBE 2 did.toNat ++ v) 0x62 hpay hsvc hstep (by decide) rsp62 (Or.inl (by simp [toBE2]))
  rw [rigStep_ok cfg _ _ _ _ _ hreq hx]
  have := rdbiClient_single cfg.dids cfg.tol did.toNat v l hlt hfind hl hv hz
  simp [RCall.interpret, posResp, this, bind, Except.bind, pure, Except.pure]

/-- **write, then any history that does not overwrite the identifier (failing calls included), then read: the value written** -/
theorem did_survives_history (cfg : RigCfg) (e : Ecu) (did : Int) (v : Bytes) (l : Option Nat) (cs : List RCall) (hd0 : 0 ≤ did) (hd : did ≤ 0xFFFF)
    (hfind : cfg.dids.find did.toNat = some l) (hl : ∀ n, l = some n → v.length = n) (hv : v ≠ [])
    (hz : ¬ (did.toNat = 0 ∧ cfg.dids.entries.any (·.1 == 0) = false ∧ cfg.tol = true ∧ allZero (toBE 2 did.toNat ++ v) = true))
    (hcs : ∀ c ∈ cs, ∀ d v', c = .wdbi d v' → d.toNat ≠ did.toNat) :
    let e1 := (rigStep cfg e (.wdbi did v)).1
    let e2 := rigRun cfg e1 cs
    (rigStep cfg e2 (.rdbi [did])).2 = .ok (.sd (.rdbi [(did.toNat, v)])) := by
  intro e1 e2
  have h1 := (did_write_read_back cfg e did v l hd0 hd hfind hl hv hz).1
  have hg : didGet e2.dids did.toNat = some v := by
    show didGet (rigRun cfg (rigStep cfg e (.wdbi did v)).1 cs).dids did.toNat = some v
    rw [history_keeps_did cfg _ cs did.toNat hcs, h1]
    exact didGet_head _ _ _
  rw [rig_read_did cfg e2 did v l hd0 hd hfind hl hv hz hg]

/-- reading a range returns whatever bytes the ECU's memory holds there -/
theorem rig_read_mem (cfg : RigCfg) (e : Ecu) (a s : Int) (af mf : Option Int) (ml : MemLoc) (w : Bytes)
    (h2 : MemLoc.ready cfg a s af mf = .ok ml) (hw : ml.wire = .ok w) (hs : 0 < s) :
    rigStep cfg e (.readMem a s af mf) = (e, .ok (.sd (.readMem (memRead e.mem a.toNat s.toNat)))) := by
  obtain ⟨wa, wm, ha, hsz⟩ := ready_ok h2
  have hreq : RCall.request cfg (.readMem a s af mf) = .ok { service := fromRequestId 0x23, data := some w } := by
    simp [RCall.request, h2, readMemMakeRequest, hw, bind, Except.bind, pure, Except.pure]
  have hpay : ({ service := fromRequestId 0x23, data := some w } : Request).getPayload none = .ok (0x23 :: w) := by
    simp [Request.getPayload, svc23, packB, bind, Except.bind, pure, Except.pure]
  have hstep := ecu_readMem e ml w wa wm hw
  rw [ha, hsz] at hstep
  have hlen := memRead_length e.mem a.toNat s.toNat
  have dne : memRead e.mem a.toNat s.toNat ≠ [] := by intro h0; rw [h0] at hlen; simp at hlen; omega
  have hx := exchange_pos _ _ _ _ _ (memRead e.mem a.toNat s.toNat) 0x63 hpay svc23 hstep (by decide) rsp63 (Or.inl dne)
  rw [rigStep_ok cfg _ _ _ _ _ hreq hx]
  have hs' : ¬ s ≤ 0 := by omega
  simp [RCall.interpret, h2, posResp, readMemClient, readMemInterpret, guardPy, hs', hsz, hlen, bind, Except.bind, pure, Except.pure]

/-- **write a range, then any history without memory writes (failing calls included), then read it with any valid widths: the bytes written** -/
theorem mem_survives_history (cfg : RigCfg) (e : Ecu) (a s : Int) (af mf af' mf' : Option Int) (data : Bytes) (ml ml' : MemLoc) (w w' : Bytes)
    (cs : List RCall) (h1 : MemLoc.ready cfg a s af mf = .ok ml) (hw : ml.wire = .ok w)
    (h2 : MemLoc.ready cfg a s af' mf' = .ok ml') (hw' : ml'.wire = .ok w') (hl : data.length = s.toNat) (hs : 0 < s)
    (hcs : ∀ c ∈ cs, RCall.writesMem c = false) :
    let e1 := (rigStep cfg e (.writeMem a s af mf data)).1
    let e2 := rigRun cfg e1 cs
    (rigStep cfg e2 (.readMem a s af' mf')).2 = .ok (.sd (.readMem data)) := by
  intro e1 e2
  have hA := (mem_write_read_back cfg e a s af mf af' mf' data ml ml' w w' h1 hw h2 hw' hl hs).1
  have hm : e2.mem = memWrite e.mem a.toNat data := by
    show (rigRun cfg (rigStep cfg e (.writeMem a s af mf data)).1 cs).mem = _
    rw [history_keeps_mem cfg _ cs hcs, hA]
  rw [rig_read_mem cfg e2 a s af' mf' ml' w' h2 hw' hs, hm, ← hl, memRead_write]


/-! ## upload: request_upload, then transfer_data without data pulls the range back in blocks -/

def xferOpenUp (addr size : Nat) : Xfer := { addr := addr, size := size, next := 1, buf := [], upload := true, sent := 0 }

theorem svc35 : fromRequestId 0x35 = some ⟨"RequestUpload", 0x35, false, true⟩ := by decide
theorem rsp75 : fromResponseId 0x75 = some ⟨"RequestUpload", 0x35, false, true⟩ := by decide

theorem ecu_upload (e : Ecu) (ml : MemLoc) (w : Bytes) (dfi : UInt8) (hA : Uds.Props.C14.Width ml.alfidA) (hM : Uds.Props.C14.Width ml.alfidM) (h : ml.wire = .ok w) :
    e.step (0x35 :: dfi :: w) = ({ e with xfer := some (xferOpenUp ml.address.toNat ml.size.toNat) }, [0x75, 0x20, 0x0F, 0xFF]) := by
  obtain ⟨hd, _, _, _⟩ := Uds.Props.C14.wire_decodes ml w [] hA hM h
  rw [List.append_nil] at hd
  simp only [Ecu.step, Ecu.onXferReq, show ((0x35 : UInt8) == 0x2E) = false by decide, show ((0x35 : UInt8) == 0x22) = false by decide,
    show ((0x35 : UInt8) == 0x3D) = false by decide, show ((0x35 : UInt8) == 0x23) = false by decide,
    show ((0x35 : UInt8) == 0x34 || (0x35 : UInt8) == 0x35) = true by decide, Bool.false_eq_true, if_false, if_true, hd]
  simp [xferOpenUp]

theorem rig_upload (cfg : RigCfg) (e : Ecu) (a s : Int) (af mf : Option Int) (dfi : Nat) (ml : MemLoc) (w : Bytes)
    (h1 : MemLoc.ready cfg a s af mf = .ok ml) (hw : ml.wire = .ok w) (hd : dfi < 256) :
    rigStep cfg e (.xferReq true a s af mf dfi) = ({ e with xfer := some (xferOpenUp a.toNat s.toNat) }, .ok (.sd (.xfer 0x0FFF))) := by
  obtain ⟨wa, wm, ha, hsz⟩ := ready_ok h1
  have hreq : RCall.request cfg (.xferReq true a s af mf dfi) = .ok { service := fromRequestId 0x35, data := some ([UInt8.ofNat dfi] ++ w) } := by
    simp [RCall.request, h1, requestXferMakeRequest, hw, packB, hd, bind, Except.bind, pure, Except.pure]
  have hpay : ({ service := fromRequestId 0x35, data := some ([UInt8.ofNat dfi] ++ w) } : Request).getPayload none = .ok (0x35 :: UInt8.ofNat dfi :: w) := by
    simp [Request.getPayload, svc35, packB, bind, Except.bind, pure, Except.pure]
  have hstep := ecu_upload e ml w (UInt8.ofNat dfi) wa wm hw
  rw [ha, hsz] at hstep
  have hx := exchange_pos e _ _ _ _ [0x20, 0x0F, 0xFF] 0x75 hpay svc35 hstep (by decide) rsp75 (Or.inl (by simp))
  rw [rigStep_ok cfg e _ _ _ _ hreq hx]
  have : xferInterpret [0x20, 0x0F, 0xFF] = .ok (.xfer 0x0FFF) := by decide
  simp [RCall.interpret, posResp, this, bind, Except.bind, pure, Except.pure]

theorem ecu_pull (e : Ecu) (x : Xfer) (seq : UInt8) (hx : e.xfer = some x) (hu : x.upload = true) (hs : seq.toNat = x.next) :
    e.step [0x36, seq] = ({ e with xfer := some { x with next := (x.next + 1) % 256, sent := x.sent + min upBlock (x.size - x.sent) } },
      [0x76, seq] ++ memRead e.mem (x.addr + x.sent) (min upBlock (x.size - x.sent))) := by
  simp only [Ecu.step, Ecu.onTransfer, show ((0x36 : UInt8) == 0x2E) = false by decide, show ((0x36 : UInt8) == 0x22) = false by decide,
    show ((0x36 : UInt8) == 0x3D) = false by decide, show ((0x36 : UInt8) == 0x23) = false by decide,
    show ((0x36 : UInt8) == 0x34 || (0x36 : UInt8) == 0x35) = false by decide, show ((0x36 : UInt8) == 0x36) = true by decide,
    Bool.false_eq_true, if_false, if_true, hx, hs, hu, ne_eq, not_true_eq_false]

/-- one pull: `transfer_data(n)` without data returns the next block of the range -/
theorem rig_pull (cfg : RigCfg) (e : Ecu) (x : Xfer) (n : Nat) (hn : n < 256) (hx : e.xfer = some x) (hu : x.upload = true) (hs : n = x.next) :
    rigStep cfg e (.simple (.transferData n none)) =
      ({ e with xfer := some { x with next := (x.next + 1) % 256, sent := x.sent + min upBlock (x.size - x.sent) } },
       .ok (.sd (.transferData n (memRead e.mem (x.addr + x.sent) (min upBlock (x.size - x.sent)))))) := by
  have hv : validateInt (n : Int) 0 0xFF = .ok () := validateInt_ok.2 ⟨by omega, by omega⟩
  have hreq : RCall.request cfg (.simple (.transferData n none)) = .ok (mkReq "TransferData" none (some ([UInt8.ofNat n] ++ []))) := by
    simp [RCall.request, Entry.makeRequest, transferDataMakeRequest, hv, bind, Except.bind, pure, Except.pure]
  obtain ⟨hpay, hsvc⟩ := payload_nosf' "TransferData" ([UInt8.ofNat n] ++ []) _ svcTD rfl (by decide)
  have hstep := ecu_pull e x (UInt8.ofNat n) hx hu (by rw [toNat_ofNat_lt hn]; exact hs)
  have hxc := exchange_pos e _ _ _ _ (UInt8.ofNat n :: memRead e.mem (x.addr + x.sent) (min upBlock (x.size - x.sent))) 0x76 hpay hsvc hstep (by decide) rsp76 (Or.inl (by simp))
  rw [rigStep_ok cfg e _ _ _ _ hreq hxc]
  simp [RCall.interpret, posResp, simpleClient, transferDataInterpret, guardPy, idx, toNat_ofNat_lt hn, bind, Except.bind, pure, Except.pure]

/-- pull `k` blocks with consecutive counters; the concatenation of what came back -/
def pullBlocks (cfg : RigCfg) (e : Ecu) (n : Nat) : Nat → Option (Ecu × Bytes)
  | 0 => some (e, [])
  | k + 1 =>
    match (rigStep cfg e (.simple (.transferData n none))).2 with
    | .ok (.sd (.transferData _ chunk)) =>
      (pullBlocks cfg (rigStep cfg e (.simple (.transferData n none))).1 ((n + 1) % 256) k).map (fun p => (p.1, chunk ++ p.2))
    | _ => none

theorem pull_ok (cfg : RigCfg) (e : Ecu) (x : Xfer) (n k : Nat) (hx : e.xfer = some x) (hu : x.upload = true) (hn : n = x.next) (hn256 : n < 256)
    (hle : x.sent ≤ x.size) :
    ∃ e', pullBlocks cfg e n k = some (e', memRead e.mem (x.addr + x.sent) (min (k * upBlock) (x.size - x.sent))) ∧ e'.mem = e.mem ∧ e'.dids = e.dids := by
  induction k generalizing e x n with
  | zero => exact ⟨e, by simp [pullBlocks, memRead], rfl, rfl⟩
  | succ k ih =>
    have hstep := rig_pull cfg e x n hn256 hx hu hn
    simp only [pullBlocks, hstep]
    have hle' : x.sent + min upBlock (x.size - x.sent) ≤ x.size := by omega
    obtain ⟨e', he', hm, hd⟩ := ih { e with xfer := some { x with next := (x.next + 1) % 256, sent := x.sent + min upBlock (x.size - x.sent) } }
      { x with next := (x.next + 1) % 256, sent := x.sent + min upBlock (x.size - x.sent) } ((n + 1) % 256) rfl hu (by subst hn; rfl) (Nat.mod_lt _ (by omega)) hle'
    refine ⟨e', ?_, hm, hd⟩
    rw [he']
    simp only [Option.map_some, Option.some.injEq, Prod.mk.injEq, true_and]
    have hsplit : min ((k + 1) * upBlock) (x.size - x.sent) =
        min upBlock (x.size - x.sent) + min (k * upBlock) (x.size - (x.sent + min upBlock (x.size - x.sent))) := by
      simp only [upBlock]; omega
    rw [hsplit, memRead_append]
    congr 2
    omega

/-- **upload returns the stored bytes**: after `request_upload` of a range, pulling enough blocks returns exactly the bytes the ECU holds there -/
theorem upload_streams_memory (cfg : RigCfg) (e : Ecu) (a s : Int) (af mf : Option Int) (dfi : Nat) (ml : MemLoc) (w : Bytes) (k : Nat)
    (h1 : MemLoc.ready cfg a s af mf = .ok ml) (hw : ml.wire = .ok w) (hd : dfi < 256) (hk : s.toNat ≤ k * upBlock) :
    ∃ e1 e2, rigStep cfg e (.xferReq true a s af mf dfi) = (e1, .ok (.sd (.xfer 0x0FFF))) ∧
      pullBlocks cfg e1 1 k = some (e2, memRead e.mem a.toNat s.toNat) := by
  have hA := rig_upload cfg e a s af mf dfi ml w h1 hw hd
  obtain ⟨e2, h2, _, _⟩ := pull_ok cfg { e with xfer := some (xferOpenUp a.toNat s.toNat) } (xferOpenUp a.toNat s.toNat) 1 k rfl rfl rfl (by decide) (by simp [xferOpenUp])
  refine ⟨_, e2, hA, ?_⟩
  rw [h2]
  simp only [xferOpenUp, Nat.add_zero, Nat.sub_zero, Nat.min_eq_right hk]



/-! ## the library's own codecs: `DidCodec(packstr)` and `AsciiCodec` -/

/-- **what a codec encodes, it decodes back** (a scalar comes back as the one-element tuple), and the payload has the length the codec announces -/
theorem codec_roundtrip (c : Codec) (v : Val) (b : Bytes) (h : c.encode v = .ok b) : c.decode b = .ok v.norm ∧ c.len = .ok b.length := by
  cases c with
  | pack s =>
    unfold Codec.encode at h
    unfold Codec.decode Codec.len
    cases hp : parsePackStr s with
    | none => simp [hp] at h
    | some f =>
      simp only [hp] at h ⊢
      cases v with
      | one x =>
        obtain ⟨h1, h2⟩ := pack_unpack f [x] b h
        simp [h1, h2, Val.norm, bind, Except.bind, pure, Except.pure]
      | tuple l =>
        obtain ⟨h1, h2⟩ := pack_unpack f l b h
        simp [h1, h2, Val.norm, bind, Except.bind, pure, Except.pure]
      | str cs => simp at h
  | ascii n =>
    cases v with
    | str cs =>
      unfold Codec.encode at h
      by_cases hl : cs.length ≠ n
      · simp [hl] at h
      · have hl' : cs.length = n := by simpa using hl
        by_cases ha : cs.all (· < 128) = true
        · simp only [hl, if_false, ha, if_true, pure_ok] at h
          subst h
          obtain ⟨i1, i2⟩ := ascii_bytes cs ha
          unfold Codec.decode Codec.len
          simp [i1, i2, hl', Val.norm, pure, Except.pure]
        · simp [hl, ha] at h
    | one x => simp [Codec.encode] at h
    | tuple l => simp [Codec.encode] at h


/-- a pack-string codec accepts exactly the values its format admits — out-of-range integers are refused, never wrapped or truncated -/
theorem pack_accepts_iff (f : PackFmt) (vs : List Int) : (∃ b, f.pack vs = .ok b) ↔ admits f.toks vs = true :=
  packFrom_ok_iff f.bo f.toks 0 vs

/-- **value level**: a value written through a codec of the library, then any history that does not overwrite the identifier, then read
    through the same codec: the value written (the configuration entry of the identifier is that codec, i.e. its length is `len(codec)`) -/
theorem value_survives_history (cfg : RigCfg) (e : Ecu) (did : Int) (c : Codec) (val : Val) (b : Bytes) (cs : List RCall) (hd0 : 0 ≤ did) (hd : did ≤ 0xFFFF)
    (henc : c.encode val = .ok b) (hfind : cfg.dids.find did.toNat = some (some b.length)) (hv : b ≠ [])
    (hz : ¬ (did.toNat = 0 ∧ cfg.dids.entries.any (·.1 == 0) = false ∧ cfg.tol = true ∧ allZero (toBE 2 did.toNat ++ b) = true))
    (hcs : ∀ c ∈ cs, ∀ d v', c = .wdbi d v' → d.toNat ≠ did.toNat) :
    let e1 := (rigStep cfg e (.wdbi did b)).1
    let e2 := rigRun cfg e1 cs
    ∃ raw, (rigStep cfg e2 (.rdbi [did])).2 = .ok (.sd (.rdbi [(did.toNat, raw)])) ∧ c.decode raw = .ok val.norm ∧ c.len = .ok raw.length := by
  intro e1 e2
  obtain ⟨h1, h2⟩ := codec_roundtrip c val b henc
  exact ⟨b, did_survives_history cfg e did b (some b.length) cs hd0 hd hfind (fun n hn => by cases hn; rfl) hv hz hcs, h1, h2⟩

example : (Codec.pack ">HbxL").encode (.tuple [0x1234, -2, 0x01020304]) = .ok [0x12, 0x34, 0xFE, 0x00, 0x01, 0x02, 0x03, 0x04] := by decide
example : (Codec.pack "<H").encode (.one 0x10000) = .error .structErr := by decide
example : (Codec.ascii 3).encode (.str [65, 66, 67]) = .ok [0x41, 0x42, 0x43] := by decide

/-! ## non-vacuity, and the excluded point -/

def exCfg : RigCfg := { dids := { entries := [(0x1234, some 2), (0xF190, none)], default := some (some 2) } }

/-- a concrete history: write, a session change, a failing read of an identifier never written, a locally refused call, read back -/
example :
    let e1 := (rigStep exCfg {} (.wdbi 0x1234 [0xBE, 0xEF])).1
    let e2 := rigRun exCfg e1 [.simple (.changeSession 3), .rdbi [0x4321], .wdbi 0x1234 [0x01], .simple .testerPresent]
    (rigStep exCfg e2 (.rdbi [0x1234])).2 = .ok (.sd (.rdbi [(0x1234, [0xBE, 0xEF])])) := by decide +kernel

example : (rigStep exCfg {} (.rdbi [0x4321])).2 = .error (.negative 0x31) := by decide +kernel

/-- the excluded point is real: identifier 0x0000 served by the `default` codec, all-zero value, zero padding tolerated — the value
    written is *not* read back (the reply is taken for padding).  Recorded as a known finding of C12 (same behaviour in the implementation). -/
example :
    let e1 := (rigStep exCfg {} (.wdbi 0 [0, 0])).1
    (rigStep exCfg e1 (.rdbi [0])).2 = .error .unexpected := by decide +kernel

end Uds.Props.C12
