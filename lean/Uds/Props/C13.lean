import Uds.Model.History
import Uds.Props.C15
/-
  C13 — security unlock sends a seed request, then exactly the computed key, or nothing.
-/
namespace Uds.Props.C13
open Uds Uds.Model

/-- parity normalisation over the whole range: level `L` (odd or even spelling) belongs to pair
    `k = ⌈L/2⌉`; the seed request uses `2k−1`, the key `2k` -/
theorem normalize_all : ∀ L : Fin 0x7F, 1 ≤ L.val →
    normalizeLevel .requestSeed (L.val : Int) = .ok (2 * ((L.val + 1) / 2) - 1) ∧
    normalizeLevel .sendKey (L.val : Int) = .ok (2 * ((L.val + 1) / 2)) := by decide +kernel

theorem normalize_rejects (mode : SaMode) (L : Int) (h : L < 1 ∨ 0x7E < L) : normalizeLevel mode L = .error .valueErr := by
  unfold normalizeLevel validateInt
  have : (decide (L < 1) || decide (L > 0x7E)) = true := by
    rcases h with h | h <;> simp [h]
  simp [this, bind, Except.bind, throw, throwThe, MonadExceptOf.throw]

/-- the request frames: `27 <odd> <seed params>` and `27 <even> <key>` with the key bytes unmodified -/
theorem seed_and_key_requests (L : Nat) (h1 : 1 ≤ L) (h2 : L ≤ 0x7E) (sp key : Bytes) :
    (Entry.requestSeed (L : Int) sp).makeRequest 2020 = .ok (mkReq "SecurityAccess" (some (2 * ((L + 1) / 2) - 1)) (some sp)) ∧
    (Entry.sendKey (L : Int) key).makeRequest 2020 = .ok (mkReq "SecurityAccess" (some (2 * ((L + 1) / 2))) (some key)) := by
  have hn := normalize_all ⟨L, by omega⟩ h1
  simp only at hn
  have hv : validateInt (L : Int) 0 0x7F = .ok () := by
    unfold validateInt
    have h : (decide ((L : Int) < 0) || decide ((L : Int) > 0x7F)) = false := by
      simp; omega
    simp [h, pure, Except.pure]
  simp only [Entry.makeRequest, saMakeRequest, hv, hn.1, hn.2, bind, Except.bind, pure, Except.pure]
  exact ⟨trivial, trivial⟩

/-- a seed is *good* when the seed request was answered by an accepted positive reply (SID and level
    echo match, at least one seed byte) whose seed is not all zeros -/
def goodSeed (r : CallResult) : Option Bytes :=
  match r.inner with
  | .ret (some resp) =>
    let seed := resp.data.drop 1
    if seed.length > 0 && allZero seed then none else some seed
  | _ => none

/-- an accepted seed reply always carries at least one seed byte -/
theorem accepted_seed_nonempty (cfg : CallCfg) (st : ClientState) (L : Int) (sp : Bytes) (arr : List Frame) (resp : Response)
    (h : (callInner cfg st (.requestSeed L sp) arr).inner = .ret (some resp)) : 0 < (resp.data.drop 1).length := by
  unfold callInner at h
  cases hm : (Entry.requestSeed L sp).makeRequest cfg.std with
  | error err => simp [hm] at h
  | ok req =>
    simp only [hm] at h
    cases ho : (sendRequest cfg.send st req none arr).outcome with
    | none => simp [ho] at h
    | raised a b c => simp [ho] at h
    | resp r =>
      simp only [ho] at h
      cases hp : (Entry.requestSeed L sp).post cfg.std r.data with
      | error err => simp [hp] at h
      | ok t =>
        simp only [hp] at h
        have : r = resp := by simpa using h
        subst this
        simp only [Entry.post, saPost] at hp
        by_cases hl : r.data.length < 2
        · simp [hl, bind, Except.bind, throw, throwThe, MonadExceptOf.throw] at hp
        · simp [List.length_drop]; omega

/-- **unlock_frames / algo_calls / no_key_after_failure** — the complete behaviour of the composite:
    * the seed exchange runs first (its op log comes first);
    * if it does not yield a good seed (negative, invalid, mismatching, timed out, suppressed, or an
      all-zero seed = already unlocked) nothing more is sent and the algorithm is never called;
    * otherwise the algorithm is called exactly once with that seed and the level as passed, and its
      result is what the key request carries. -/
theorem unlock_behaviour (cfg : CallCfg) (st : ClientState) (algo : Bytes → Int → Bytes) (L : Int) (sp : Bytes)
    (a1 a2 : List Frame) :
    let r1 := callInner cfg st (.requestSeed L sp) a1
    let u := unlockInner cfg st true algo L sp a1 a2
    match goodSeed r1 with
    | none => u.log = r1.log ∧ u.algoCalls = [] ∧
        (∀ resp, r1.inner = .ret (some resp) → u.inner = .ret (some resp)) ∧
        (∀ e r, r1.inner = .exc e r → u.inner = .exc e r)
    | some seed =>
        let r2 := callInner cfg r1.st (.sendKey L (algo seed L)) a2
        u.log = r1.log ++ r2.log ∧ u.algoCalls = [⟨seed, L⟩] ∧ u.inner = r2.inner := by
  simp only [unlockInner, goodSeed, Bool.not_true, Bool.false_eq_true, if_false]
  cases hi : (callInner cfg st (.requestSeed L sp) a1).inner with
  | exc e r => simp
  | ret r =>
    cases r with
    | none => simp
    | some resp =>
      simp only []
      by_cases hz : ((resp.data.drop 1).length > 0 && allZero (resp.data.drop 1)) = true
      · simp only [hz, if_true]
        refine ⟨?_, ?_, ?_, ?_⟩ <;> first | trivial | rfl | (intro _ h; exact h) | (intro _ _ h; cases h)
      · simp only [hz]
        refine ⟨?_, ?_, ?_⟩ <;> first | trivial | rfl

/-- never more than two frames; exactly one when no good seed came back -/
theorem no_second_frame_without_seed (cfg : CallCfg) (st : ClientState) (algo : Bytes → Int → Bytes) (L : Int) (sp : Bytes)
    (a1 a2 : List Frame) (h : goodSeed (callInner cfg st (.requestSeed L sp) a1) = none) :
    ((unlockInner cfg st true algo L sp a1 a2).log.filter C15.Op.isSend).length ≤ 1 := by
  have := unlock_behaviour cfg st algo L sp a1 a2
  simp only [h] at this
  rw [this.1]
  exact C15.call_single_send cfg st _ a1

/-- without a configured algorithm nothing is sent at all -/
theorem no_algo_nothing_sent (cfg : CallCfg) (st : ClientState) (algo : Bytes → Int → Bytes) (L : Int) (sp : Bytes)
    (a1 a2 : List Frame) : (unlockInner cfg st false algo L sp a1 a2).log = [] := by
  simp [unlockInner]

/-! ### non-vacuity: level 4 (even spelling) → seed request 27 03, key request 27 04 with the computed key -/
example : (unlockInner { send := ⟨none, 100, 500, false⟩ } {} true demoAlgo 4 []
    [⟨1, [0x67, 0x03, 0x11, 0x22]⟩] [⟨1, [0x67, 0x04]⟩]).log.filter C15.Op.isSend
    = [.send [0x27, 0x03], .send [0x27, 0x04, 0xB4, 0x87, 0x04]] := by decide

end Uds.Props.C13
