import Uds.Props.C04
import Uds.Props.C13
/-
  C04 for the seed/key composite: unlock_security_access over any frames on either leg.
-/
namespace Uds.Props.C04
open Uds Uds.Model

theorem saMakeRequest_ok (L : Int) (m : SaMode) (d : Bytes) (hL : 1 ≤ L ∧ L ≤ 0x7E) : ∃ req, saMakeRequest L m d = .ok req := by
  obtain ⟨n, hn⟩ := normalizeLevel_safe m L hL
  unfold saMakeRequest
  rw [validateInt_ok (u := ()) |>.2 (by omega), hn]
  exact ⟨_, rfl⟩

/-- **unlock_security_access** (seed request, key computation, key request): whatever frames arrive on either leg, the composite returns or raises a
    documented outcome (without a configured algorithm: NotImplementedError, before anything is sent) -/
theorem unlock_documented (cfg : CallCfg) (st : ClientState) (hasAlgo : Bool) (algo : Bytes → Int → Bytes) (L : Int) (sp : Bytes) (arr1 arr2 : List Frame)
    (hstd : cfg.std > 2006 → cfg.std ≥ 2013) (hL : 1 ≤ L ∧ L ≤ 0x7E) :
    match (unlockInner cfg st hasAlgo algo L sp arr1 arr2).inner with
    | .ret _ => True
    | .exc err _ => err.documented = true := by
  unfold unlockInner
  cases hasAlgo with
  | false => simp [PyErr.documented]
  | true =>
    simp only [Bool.not_true, Bool.false_eq_true, if_false]
    have h1 := call_documented cfg st (.requestSeed L sp) arr1 hstd (by
      intro l x h; rcases h with h | h
      · cases h; exact hL
      · cases h)
    cases hi : (callInner cfg st (.requestSeed L sp) arr1).inner with
    | exc e r =>
      rw [hi] at h1; simp only [] at h1 ⊢
      rcases h1 with h | ⟨h, _⟩
      · exact h
      · obtain ⟨req, hreq⟩ := saMakeRequest_ok L .requestSeed sp hL
        simp only [Entry.makeRequest, hreq] at h; cases h
    | ret r =>
      cases r with
      | none => simp
      | some resp =>
        simp only []
        cases hc : (decide ((resp.data.drop 1).length > 0) && allZero (resp.data.drop 1))
        case true => simp only [if_true]
        case false =>
          simp only [Bool.false_eq_true, if_false]
          have h2 := call_documented cfg (callInner cfg st (.requestSeed L sp) arr1).st (.sendKey L (algo (resp.data.drop 1) L)) arr2 hstd (by
            intro l x h; rcases h with h | h
            · cases h
            · cases h; exact hL)
          cases hj : (callInner cfg (callInner cfg st (.requestSeed L sp) arr1).st (.sendKey L (algo (resp.data.drop 1) L)) arr2).inner with
          | ret _ => trivial
          | exc e r =>
            rw [hj] at h2; simp only [] at h2 ⊢
            rcases h2 with h | ⟨h, _⟩
            · exact h
            · obtain ⟨req, hreq⟩ := saMakeRequest_ok L .sendKey (algo (resp.data.drop 1) L) hL
              simp only [Entry.makeRequest, hreq] at h; cases h

/-- out of its domain the level is refused before anything is sent -/
theorem unlock_refused (cfg : CallCfg) (st : ClientState) (algo : Bytes → Int → Bytes) (L : Int) (sp : Bytes) (arr1 arr2 : List Frame)
    (hL : L < 1 ∨ 0x7E < L) :
    (unlockInner cfg st true algo L sp arr1 arr2).inner = .exc .valueErr none ∧ (unlockInner cfg st true algo L sp arr1 arr2).log = [] := by
  have hm : (Entry.requestSeed L sp).makeRequest cfg.std = .error .valueErr := by
    simp only [Entry.makeRequest, saMakeRequest]
    by_cases h0 : L < 0 ∨ 0x7F < L
    · have : validateInt L 0 0x7F = .error .valueErr := by
        unfold validateInt; rcases h0 with h | h <;> simp [h] <;> rfl
      rw [this]; rfl
    · rw [validateInt_ok (u := ()) |>.2 (by omega)]
      simp only [bind, Except.bind]
      rw [Uds.Props.C13.normalize_rejects .requestSeed L hL]
  unfold unlockInner callInner
  simp [hm]

end Uds.Props.C04
