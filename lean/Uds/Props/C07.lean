import Uds.Lemmas.Py
import Uds.Lemmas.MemLoc
import Uds.Model.Entry
import Uds.Props.C19
/-
  C07 — out-of-domain arguments are rejected before sending; the accepted domain is exactly the documented one.
  For every request builder: `make_request` succeeds **iff** the arguments are in the documented domain
  (`…InDomain`, written from the docstrings, independent of the code's validation order).  A failing
  `make_request` precedes `send_request` in every client method (`callInner`), so nothing is sent.
-/
namespace Uds.Props.C07
open Uds Uds.Model

/-! ### ReadDataByIdentifier -/

/-- a codec that reads all remaining data may only be the last one requested -/
def readAllOnlyLast (c : DidCfg) : List Nat → Prop
  | [] => True
  | [_] => True
  | d :: e :: rest => c.find d ≠ some none ∧ readAllOnlyLast c (e :: rest)

def rdbiInDomain (cfg : Option DidCfg) (dids : List Int) : Prop :=
  (∀ d ∈ dids, 0 ≤ d ∧ d ≤ 0xFFFF) ∧
  match cfg with
  | none => True
  | some c => (∀ d ∈ dids, (c.find d.toNat).isSome = true) ∧ readAllOnlyLast c (dids.map Int.toNat)

theorem validateDidList_ok (dids : List Int) (ds : List Nat) :
    validateDidList dids = .ok ds ↔ ((∀ d ∈ dids, 0 ≤ d ∧ d ≤ 0xFFFF) ∧ ds = dids.map Int.toNat) := by
  induction dids generalizing ds with
  | nil => simp [validateDidList]
  | cons d rest ih =>
    simp only [validateDidList, bind_ok, validateInt_ok, pure_ok, List.mem_cons, List.map_cons]
    constructor
    · rintro ⟨_, ⟨h1, h2⟩, tl, htl, rfl⟩
      obtain ⟨h3, h4⟩ := (ih tl).1 htl
      refine ⟨?_, by rw [h4]⟩
      intro x hx; rcases hx with rfl | hx
      · exact ⟨h1, h2⟩
      · exact h3 x hx
    · rintro ⟨h, rfl⟩
      refine ⟨(), h d (Or.inl rfl), rest.map Int.toNat, (ih _).2 ⟨fun x hx => h x (Or.inr hx), rfl⟩, rfl⟩

theorem checkReadAll_ok (c : DidCfg) (ds : List Nat) (seen : Bool) (u : Unit) :
    rdbiCheckReadAll c ds seen = .ok u ↔
      ((∀ d ∈ ds, (c.find d).isSome = true) ∧ (if seen then ds = [] else readAllOnlyLast c ds)) := by
  induction ds generalizing seen with
  | nil => cases seen <;> simp [rdbiCheckReadAll, readAllOnlyLast]
  | cons d rest ih =>
    simp only [rdbiCheckReadAll, bind_ok, fetchCodec, List.mem_cons]
    cases hf : c.find d with
    | none =>
      simp only [throw_ok, false_and, exists_false, false_iff, not_and]
      intro h; have := h d (Or.inl rfl); simp [hf] at this
    | some l =>
      cases l with
      | some n =>
        cases seen
        · simp only [pure_ok, exists_eq_left', Bool.false_eq_true, if_false, ih]
          constructor
          · rintro ⟨h1, h2⟩
            refine ⟨?_, ?_⟩
            · intro x hx; rcases hx with rfl | hx
              · simp [hf]
              · exact h1 x hx
            · cases rest with
              | nil => simp [readAllOnlyLast]
              | cons e r => simp [readAllOnlyLast, hf]; simpa using h2
          · rintro ⟨h1, h2⟩
            refine ⟨fun x hx => h1 x (Or.inr hx), ?_⟩
            cases rest with
            | nil => simp [readAllOnlyLast]
            | cons e r => simp [readAllOnlyLast, hf] at h2; simpa using h2
        · simp
      | none =>
        cases seen
        · simp only [pure_ok, exists_eq_left', Bool.false_eq_true, if_false, ih, if_true]
          constructor
          · rintro ⟨h1, h2⟩
            subst h2
            simp [hf, readAllOnlyLast]
          · rintro ⟨h1, h2⟩
            cases rest with
            | nil => simp
            | cons e r => simp [readAllOnlyLast, hf] at h2
        · simp

theorem rdbiValidateCfg_ok (cfg : Option DidCfg) (ds : List Nat) (u : Unit) :
    rdbiValidateCfg cfg ds = .ok u ↔
      match cfg with
      | none => True
      | some c => (∀ d ∈ ds, (c.find d).isSome = true) ∧ readAllOnlyLast c ds := by
  cases cfg with
  | none => simp [rdbiValidateCfg]
  | some c =>
    simp only [rdbiValidateCfg, bind_ok, checkDidConfig]
    by_cases hall : ds.all (fun d => (c.find d).isSome) = true
    · simp only [hall, if_true, pure_ok, exists_eq_left', checkReadAll_ok, Bool.false_eq_true, if_false]
    · simp only [hall, Bool.false_eq_true, if_false, throw_ok, false_and, exists_false, false_iff, not_and]
      intro h; exfalso; apply hall
      simp only [List.all_eq_true]; exact h

/-- **ReadDataByIdentifier** (also `read_data_by_identifier_first`, and `test_data_identifier` with `cfg = none`) -/
theorem rdbi_accepts_iff (cfg : Option DidCfg) (dids : List Int) :
    (∃ r, rdbiMakeRequest cfg dids = .ok r) ↔ rdbiInDomain cfg dids := by
  unfold rdbiMakeRequest rdbiInDomain
  simp only [bind_ok, validateDidList_ok, pure_ok, rdbiValidateCfg_ok]
  constructor
  · rintro ⟨r, ds, ⟨h, rfl⟩, u, hu, _⟩
    refine ⟨h, ?_⟩
    cases cfg with
    | none => trivial
    | some c =>
      obtain ⟨h1, h2⟩ := hu
      refine ⟨?_, h2⟩
      intro d hd; exact h1 d.toNat (List.mem_map_of_mem hd)
  · rintro ⟨h, h2⟩
    refine ⟨_, _, ⟨h, rfl⟩, (), ?_, rfl⟩
    cases cfg with
    | none => trivial
    | some c =>
      obtain ⟨h1, h3⟩ := h2
      refine ⟨?_, h3⟩
      intro x hx
      simp only [List.mem_map] at hx
      obtain ⟨d, hd, rfl⟩ := hx; exact h1 d hd

/-! ### WriteDataByIdentifier -/

def wdbiInDomain (cfg : DidCfg) (did : Int) (v : Bytes) : Prop :=
  0 ≤ did ∧ did ≤ 0xFFFF ∧ ∃ l, cfg.find did.toNat = some l ∧ (∀ n, l = some n → v.length = n)

theorem encodeVal_ok (l : Option Nat) (v b : Bytes) : encodeVal l v = .ok b ↔ ((∀ n, l = some n → v.length = n) ∧ b = v) := by
  unfold encodeVal
  cases l with
  | none => simp; exact eq_comm
  | some n =>
    by_cases h : v.length = n
    · simp [h]; exact eq_comm
    · simp [h]

theorem wdbi_accepts_iff (cfg : DidCfg) (did : Int) (v : Bytes) :
    (∃ r, wdbiMakeRequest cfg did v = .ok r) ↔ wdbiInDomain cfg did v := by
  unfold wdbiMakeRequest wdbiInDomain
  simp only [bind_ok, validateInt_ok, pure_ok, checkDidConfig, fetchCodec, encodeVal_ok, List.all_cons, List.all_nil, Bool.and_true]
  constructor
  · rintro ⟨r, _, ⟨h1, h2⟩, c, hc, l, hl, b, ⟨hb, rfl⟩, _⟩
    cases hf : cfg.find did.toNat with
    | none => simp [hf] at hc
    | some l' =>
      simp [hf] at hc; subst hc
      rw [hf] at hl; simp at hl; subst hl
      exact ⟨h1, h2, l', rfl, hb⟩
  · rintro ⟨h1, h2, l, hl, hb⟩
    exact ⟨_, (), ⟨h1, h2⟩, cfg, by simp [hl], l, by simp [hl], v, ⟨hb, rfl⟩, rfl⟩

/-! ### InputOutputControlByIdentifier -/

/-- a configuration entry is usable: `mask_size` ≥ 0 and every configured mask fits it -/
def ioEntryValid (e : IoEntry) : Prop :=
  match e.maskSize with
  | none => True
  | some sz => 0 ≤ sz ∧ ∀ ms, e.mask = some ms → ∀ m ∈ ms, m.2 ≤ 2 ^ (sz.toNat * 8) - 1

/-- the numeric value of the selected masks (spec: OR of the configured bit masks of the names that are set) -/
def maskOr (cfg : List (String × Nat)) : List (String × Bool) → Option Nat
  | [] => some 0
  | (name, on) :: rest =>
    match cfg.find? (·.1 == name), maskOr cfg rest with
    | some m, some v => some (if on then m.2 ||| v else v)
    | _, _ => none

def maskInDomain (e : IoEntry) : Option MaskArg → Prop
  | none => True
  | some (.all _) => e.maskSize.isSome = true
  | some (.named l) => ∃ cfg v, e.mask = some cfg ∧ maskOr cfg l = some v ∧
      v < 256 ^ (match e.maskSize with | some sz => sz.toNat | none => byteLen v)

def ioInDomain (cfg : IoCfg) (did : Int) (cp : Option Int) (values : Option Bytes) (masks : Option MaskArg) : Prop :=
  0 ≤ did ∧ did ≤ 0xFFFF ∧ (∀ c, cp = some c → 0 ≤ c ∧ c ≤ 3) ∧ ¬ (values = none ∧ masks.isSome = true) ∧
  ∃ e, cfg.find did.toNat = some e ∧ ioEntryValid e ∧
    (∀ v, values = some v → ∀ n, e.codecLen = some n → v.length = n) ∧ maskInDomain e masks

theorem checkIoEntry_ok (e : IoEntry) (u : Unit) : checkIoEntry e = .ok u ↔ ioEntryValid e := by
  unfold checkIoEntry ioEntryValid
  cases e.maskSize with
  | none => simp
  | some sz =>
    simp only
    by_cases h : sz < 0
    · simp [h]; omega
    · simp only [h, if_false]
      cases e.mask with
      | none => simp; omega
      | some ms =>
        by_cases hall : ms.all (fun m => decide (m.2 ≤ 2 ^ (sz.toNat * 8) - 1)) = true
        · simp only [hall, if_true, pure_ok, true_iff]
          refine ⟨by omega, ?_⟩
          intro ms' hms m hm; cases hms
          simp only [List.all_eq_true, decide_eq_true_eq] at hall
          exact hall m hm
        · simp only [hall, Bool.false_eq_true, if_false, throw_ok, false_iff, not_and]
          intro _ h2; apply hall
          simp only [List.all_eq_true, decide_eq_true_eq]
          exact h2 ms rfl

theorem ioMaskValue_acc (cfg : List (String × Nat)) (l : List (String × Bool)) (acc v : Nat) :
    ioMaskValue cfg l acc = .ok v ↔ ∃ w, maskOr cfg l = some w ∧ v = acc ||| w := by
  induction l generalizing acc v with
  | nil => simp [ioMaskValue, maskOr]; exact eq_comm
  | cons p rest ih =>
    obtain ⟨name, on⟩ := p
    simp only [ioMaskValue, maskOr]
    cases hf : cfg.find? (·.1 == name) with
    | none => simp
    | some m =>
      simp only [ih]
      cases hr : maskOr cfg rest with
      | none => simp
      | some w =>
        cases on
        · simp
        · simp only [if_true, Option.some.injEq, exists_eq_left']
          constructor
          · rintro rfl; rw [Nat.or_assoc]
          · rintro rfl; rw [Nat.or_assoc]

theorem toBytesBE_ok (v size : Nat) (b : Bytes) : toBytesBE v size = .ok b ↔ (v < 256 ^ size ∧ b = toBE size v) := by
  unfold toBytesBE
  by_cases h : v < 256 ^ size
  · simp [h]; exact eq_comm
  · simp [h]

theorem ioMaskPart_ok (e : IoEntry) (masks : Option MaskArg) : (∃ b, ioMaskPart e masks = .ok b) ↔ maskInDomain e masks := by
  unfold ioMaskPart maskInDomain
  cases masks with
  | none => simp
  | some m =>
    cases m with
    | all b =>
      simp only [ioMaskBytes]
      cases e.maskSize <;> simp
    | named l =>
      simp only [ioMaskBytes]
      cases hm : e.mask with
      | none => simp
      | some cfg =>
        simp only [bind_ok, ioMaskValue_acc, toBytesBE_ok]
        constructor
        · rintro ⟨b, v, ⟨w, hw, hv⟩, hlt, _⟩
          have : v = w := by rw [hv]; simp
          subst this
          exact ⟨cfg, v, rfl, hw, hlt⟩
        · rintro ⟨cfg', v, hc, hv, hlt⟩
          cases hc
          exact ⟨_, v, ⟨v, hv, by simp⟩, hlt, rfl⟩

theorem io_accepts_iff (cfg : IoCfg) (did : Int) (cp : Option Int) (values : Option Bytes) (masks : Option MaskArg) :
    (∃ r, ioMakeRequest cfg did cp values masks = .ok r) ↔ ioInDomain cfg did cp values masks := by
  unfold ioMakeRequest ioInDomain
  have hcp : ∀ u : Unit, ioCheckParam cp = .ok u ↔ (∀ c, cp = some c → 0 ≤ c ∧ c ≤ 3) := by
    intro u; unfold ioCheckParam
    cases cp with
    | none => simp
    | some c =>
      by_cases h : (c < 0 || c > 3) = true
      · simp only [h, if_true, throw_ok, false_iff]; simp at h; intro h'; have := h' c rfl; omega
      · simp only [h]; simp at h; simp; omega
  have hpb : (∃ b, ioParamBytes cp = .ok b) ↔ (∀ c, cp = some c → c.toNat < 256) := by
    unfold ioParamBytes
    cases cp with
    | none => simp
    | some c => simp [packB_ok]
  have hvb : ∀ e : IoEntry, (∃ b, ioValueBytes e values = .ok b) ↔ (∀ v, values = some v → ∀ n, e.codecLen = some n → v.length = n) := by
    intro e; unfold ioValueBytes
    cases values with
    | none => simp
    | some v => simp [encodeVal_ok]
  constructor
  · rintro ⟨r, h⟩
    simp only [bind_ok, validateInt_ok, hcp, guardPy_ok] at h
    obtain ⟨_, ⟨d1, d2⟩, _, hc, _, hvm, e, he, c, hcb, v, hv, m, hm, _⟩ := h
    have hvm' : ¬ (values = none ∧ masks.isSome = true) := by
      intro hh
      simp [hh.1, hh.2] at hvm
    refine ⟨d1, d2, hc, hvm', ?_⟩
    unfold fetchIoEntry at he
    cases hf : cfg.find did.toNat with
    | none => simp [hf] at he
    | some e' =>
      simp only [hf, bind_ok, checkIoEntry_ok, pure_ok] at he
      obtain ⟨_, hval, rfl⟩ := he
      exact ⟨e', rfl, hval, (hvb e').1 ⟨v, hv⟩, (ioMaskPart_ok e' masks).1 ⟨m, hm⟩⟩
  · rintro ⟨d1, d2, hc, hvm, e, he, hval, hv, hm⟩
    obtain ⟨vb, hvb'⟩ := (hvb e).2 hv
    obtain ⟨mb, hmb⟩ := (ioMaskPart_ok e masks).2 hm
    obtain ⟨cb, hcb⟩ := hpb.2 (by intro c hc'; have := hc c hc'; omega)
    refine ⟨mkReq "InputOutputControlByIdentifier" none (some (toBE 2 did.toNat ++ cb ++ vb ++ mb)), ?_⟩
    simp only [bind_ok, validateInt_ok, hcp, guardPy_ok]
    refine ⟨(), ⟨d1, d2⟩, (), hc, (), ?_, e, ?_, cb, hcb, vb, hvb', mb, hmb, rfl⟩
    · cases values <;> cases masks <;> simp_all
    · unfold fetchIoEntry; simp only [he, bind_ok, checkIoEntry_ok, pure_ok]; exact ⟨(), hval, trivial⟩

/-! ### ReadDTCInformation -/

inductive DtcParam where | sm | sev | dtc | snap | ext | ms | fg
  deriving DecidableEq, Repr

/-- parameters each sub-function takes, with their maximum (ISO 14229-1:2020, ReadDTCInformation request tables).
    `none`: not a sub-function with parameters known to the library -/
def dtcRequired (sf : Nat) : List (DtcParam × Int) :=
  if [0x01, 0x02, 0x0F, 0x11, 0x12, 0x13].contains sf then [(.sm, 0xFF)]
  else if sf == 0x04 then [(.dtc, 0xFFFFFF), (.snap, 0xFF)]
  else if sf == 0x05 then [(.snap, 0xFF)]
  else if sf == 0x06 || sf == 0x10 then [(.dtc, 0xFFFFFF), (.ext, 0xFF)]
  else if sf == 0x07 || sf == 0x08 then [(.sm, 0xFF), (.sev, 0xFF)]
  else if sf == 0x09 then [(.dtc, 0xFFFFFF)]
  else if sf == 0x16 then [(.ext, 0xEF)]
  else if sf == 0x17 then [(.ms, 0xFF), (.sm, 0xFF)]
  else if sf == 0x18 then [(.dtc, 0xFFFFFF), (.snap, 0xFF), (.ms, 0xFF)]
  else if sf == 0x19 then [(.dtc, 0xFFFFFF), (.ms, 0xFF), (.ext, 0xFF)]
  else if sf == 0x42 then [(.sm, 0xFF), (.sev, 0xFF), (.fg, 0xFE)]
  else if sf == 0x55 then [(.fg, 0xFE)]
  else []

def groupRequired : DtcReqGroup → List (DtcParam × Int)
  | .noParam | .other => []
  | .statusMask => [(.sm, 0xFF)]
  | .dtcSnap => [(.dtc, 0xFFFFFF), (.snap, 0xFF)]
  | .dtcSnapMem => [(.dtc, 0xFFFFFF), (.snap, 0xFF), (.ms, 0xFF)]
  | .snapRec => [(.snap, 0xFF)]
  | .dtcExt => [(.dtc, 0xFFFFFF), (.ext, 0xFF)]
  | .dtcExtMem => [(.dtc, 0xFFFFFF), (.ms, 0xFF), (.ext, 0xFF)]
  | .sevStatus => [(.sm, 0xFF), (.sev, 0xFF)]
  | .dtcOnly => [(.dtc, 0xFFFFFF)]
  | .statusMem => [(.ms, 0xFF), (.sm, 0xFF)]
  | .extRecOnly => [(.ext, 0xEF)]
  | .wwhMask => [(.sm, 0xFF), (.sev, 0xFF), (.fg, 0xFE)]
  | .wwhPerm => [(.fg, 0xFE)]

/-- the code's request grouping agrees with the ISO table for every sub-function byte -/
theorem group_table : ∀ sf : Fin 256, groupRequired (dtcReqGroup sf.val) = dtcRequired sf.val := by decide +kernel

def argParam (a : DtcArgs) (sev : Option Int) : DtcParam → Option Int
  | .sm => a.statusMask | .sev => sev | .dtc => a.dtc | .snap => a.snapRec | .ext => a.extRec | .ms => a.memSel | .fg => a.fgid

/-- the parameter is given and lies in `0..hi` -/
def inRange (v : Option Int) (hi : Int) : Prop := ∃ x, v = some x ∧ 0 ≤ x ∧ x ≤ hi

def paramsOk (a : DtcArgs) (sev : Option Int) (req : List (DtcParam × Int)) : Prop :=
  ∀ p ∈ req, inRange (argParam a sev p.1) p.2

theorem needInt_ex (v : Option Int) (hi : Int) : (∃ n, needInt v 0 hi = .ok n) ↔ inRange v hi := by
  unfold inRange
  constructor
  · rintro ⟨n, h⟩; obtain ⟨x, e, l, u, _⟩ := (needInt_ok (Int.le_refl 0)).1 h; exact ⟨x, e, l, u⟩
  · rintro ⟨x, e, l, u⟩; exact ⟨x.toNat, (needInt_ok (Int.le_refl 0)).2 ⟨x, e, l, u, by omega⟩⟩

theorem ex1 {β : Type} (v : Option Int) (hi : Int) (f : Nat → β) :
    (∃ d, (needInt v 0 hi >>= fun n => pure (f n)) = .ok d) ↔ inRange v hi := by
  rw [← needInt_ex]; simp only [bind_ok, pure_ok]
  constructor
  · rintro ⟨d, n, h, _⟩; exact ⟨n, h⟩
  · rintro ⟨n, h⟩; exact ⟨_, n, h, rfl⟩

theorem ex2 {β : Type} (v w : Option Int) (hi hj : Int) (f : Nat → Nat → β) :
    (∃ d, (needInt v 0 hi >>= fun n => needInt w 0 hj >>= fun m => pure (f n m)) = .ok d) ↔ (inRange v hi ∧ inRange w hj) := by
  rw [← needInt_ex, ← needInt_ex]; simp only [bind_ok, pure_ok]
  constructor
  · rintro ⟨d, n, h, m, g, _⟩; exact ⟨⟨n, h⟩, ⟨m, g⟩⟩
  · rintro ⟨⟨n, h⟩, ⟨m, g⟩⟩; exact ⟨_, n, h, m, g, rfl⟩

theorem ex3 {β : Type} (v w z : Option Int) (hi hj hk : Int) (f : Nat → Nat → Nat → β) :
    (∃ d, (needInt v 0 hi >>= fun n => needInt w 0 hj >>= fun m => needInt z 0 hk >>= fun k => pure (f n m k)) = .ok d)
      ↔ (inRange v hi ∧ inRange w hj ∧ inRange z hk) := by
  rw [← needInt_ex, ← needInt_ex, ← needInt_ex]; simp only [bind_ok, pure_ok]
  constructor
  · rintro ⟨d, n, h, m, g, k, j, _⟩; exact ⟨⟨n, h⟩, ⟨m, g⟩, ⟨k, j⟩⟩
  · rintro ⟨⟨n, h⟩, ⟨m, g⟩, ⟨k, j⟩⟩; exact ⟨_, n, h, m, g, k, j, rfl⟩

theorem dtcData_ok (a : DtcArgs) (sev : Option Int) (g : DtcReqGroup) :
    (∃ d, dtcData a sev g = .ok d) ↔ paramsOk a sev (groupRequired g) := by
  cases g <;> simp only [dtcData, groupRequired, paramsOk, List.mem_cons, List.not_mem_nil, or_false, forall_eq_or_imp, forall_eq, argParam,
    false_imp_iff, implies_true]
  case noParam => exact ⟨fun _ => trivial, fun _ => ⟨_, rfl⟩⟩
  case other => exact ⟨fun _ => trivial, fun _ => ⟨_, rfl⟩⟩
  case statusMask => exact ex1 _ _ _
  case dtcSnap => exact ex2 _ _ _ _ _
  case dtcSnapMem => exact ex3 _ _ _ _ _ _ _
  case snapRec => exact ex1 _ _ _
  case dtcExt => exact ex2 _ _ _ _ _
  case dtcExtMem => exact ex3 _ _ _ _ _ _ _
  case sevStatus => exact ex2 _ _ _ _ _
  case dtcOnly => exact ex1 _ _ _
  case statusMem => exact ex2 _ _ _ _ _
  case extRecOnly => exact ex1 _ _ _
  case wwhMask => exact ex3 _ _ _ _ _ _ _
  case wwhPerm => exact ex1 _ _ _

/-- the combined severity byte: `dtc_class` (0..0x1F) may only accompany a severity mask (0..0xFF) -/
def sevInDomain (a : DtcArgs) : Prop :=
  ∀ c, a.dtcClass = some c → (0 ≤ c ∧ c ≤ 0x1F ∧ ∃ s, a.severityMask = some s ∧ 0 ≤ s ∧ s ≤ 0xFF)

theorem dtcSeverity_ok (a : DtcArgs) : (∃ s, dtcSeverity a = .ok s) ↔ sevInDomain a := by
  unfold dtcSeverity sevInDomain
  cases a.dtcClass with
  | none => simp
  | some c =>
    cases a.severityMask with
    | none => simp
    | some s =>
      simp only [bind_ok, validateInt_ok, pure_ok, Option.some.injEq, forall_eq']
      constructor
      · rintro ⟨_, _, ⟨c1, c2⟩, _, ⟨s1, s2⟩, _⟩; exact ⟨c1, c2, s, rfl, s1, s2⟩
      · rintro ⟨c1, c2, s', hs, s1, s2⟩; cases hs; exact ⟨_, (), ⟨c1, c2⟩, (), ⟨s1, s2⟩, rfl⟩

/-- documented domain of `read_dtc_information` as far as the library enforces it: a sub-function it defines, allowed by the
    configured edition (C18), the class/severity rule, and every parameter of the ISO request table present and in range.
    Parameters the sub-function does *not* take are not looked at (known finding, see `superfluous_ignored`). -/
def dtcInDomain (std : Nat) (a : DtcArgs) : Prop :=
  1 ≤ a.sf ∧ a.sf ≤ 0x7F ∧ a.sf.toNat ∈ dtcSubfunctions ∧ (a.sf.toNat ∈ subfunction2020 → 2020 ≤ std) ∧
  sevInDomain a ∧ ∀ sev, dtcSeverity a = .ok sev → paramsOk a sev (dtcRequired a.sf.toNat)

theorem checkSubfunctionValid_ok (sf : Int) (std : Nat) (u : Unit) :
    checkSubfunctionValid sf std = .ok u ↔
      (1 ≤ sf ∧ sf ≤ 0x7F ∧ sf.toNat ∈ dtcSubfunctions ∧ (sf.toNat ∈ subfunction2020 → 2020 ≤ std)) := by
  unfold checkSubfunctionValid
  simp only [bind_ok, validateInt_ok, guardPy_ok, Bool.not_eq_false', List.contains_iff_mem, Bool.and_eq_false_iff, decide_eq_false_iff_not,
    List.contains_eq_mem, decide_eq_true_eq, decide_eq_false_iff_not]
  constructor
  · rintro ⟨_, ⟨h1, h2⟩, _, h3, h4⟩
    refine ⟨h1, h2, h3, ?_⟩
    intro h20
    rcases h4 with h4 | h4
    · exact absurd h20 (by simpa using h4)
    · omega
  · rintro ⟨h1, h2, h3, h4⟩
    refine ⟨(), ⟨h1, h2⟩, (), h3, ?_⟩
    by_cases h20 : sf.toNat ∈ subfunction2020
    · right; have := h4 h20; omega
    · left; simpa using h20

theorem dtc_accepts_iff (std : Nat) (a : DtcArgs) :
    (∃ r, dtcMakeRequest std a = .ok r) ↔ dtcInDomain std a := by
  unfold dtcMakeRequest dtcInDomain
  simp only [bind_ok, checkSubfunctionValid_ok, pure_ok]
  have hsf : ∀ h : (1 ≤ a.sf ∧ a.sf ≤ 0x7F), groupRequired (dtcReqGroup a.sf.toNat) = dtcRequired a.sf.toNat := by
    intro h
    have hlt : a.sf.toNat < 256 := by omega
    exact group_table ⟨a.sf.toNat, hlt⟩
  constructor
  · rintro ⟨r, _, ⟨h1, h2, h3, h4⟩, sev, hsev, d, hd, _⟩
    refine ⟨h1, h2, h3, h4, (dtcSeverity_ok a).1 ⟨sev, hsev⟩, ?_⟩
    intro sev' hs'
    rw [hsev] at hs'; cases hs'
    rw [← hsf ⟨h1, h2⟩]
    exact (dtcData_ok a sev _).1 ⟨d, hd⟩
  · rintro ⟨h1, h2, h3, h4, h5, h6⟩
    obtain ⟨sev, hsev⟩ := (dtcSeverity_ok a).2 h5
    have := h6 sev hsev
    rw [← hsf ⟨h1, h2⟩] at this
    obtain ⟨d, hd⟩ := (dtcData_ok a sev _).2 this
    exact ⟨_, (), ⟨h1, h2, h3, h4⟩, sev, hsev, d, hd, rfl⟩

/-- witness for the known finding: a parameter the sub-function does not take is silently ignored -/
theorem superfluous_ignored :
    dtcMakeRequest 2020 { sf := 0x14, memSel := some 0 } = dtcMakeRequest 2020 { sf := 0x14 } ∧
    (∃ r, dtcMakeRequest 2020 { sf := 0x14, memSel := some 0 } = .ok r) := by
  constructor
  · rfl
  · exact ⟨_, rfl⟩

/-! ### RequestFileTransfer -/

/-- documented domain of `Filesize(uncompressed, compressed, width)` -/
def fsObjInDomain (u c w : Option Int) : Prop :=
  ¬ (u = none ∧ c = none) ∧ (∀ x, u = some x → 0 ≤ x) ∧ (∀ x, c = some x → 0 ≤ x) ∧
  ∀ w', w = some w' → (0 ≤ w' ∧ (∀ x, c = some x → x ≤ 2 ^ (w'.toNat * 8) - 1) ∧ (∀ x, u = some x → x ≤ 2 ^ (w'.toNat * 8) - 1))

/-- the width a Filesize object ends up with: explicit, else the smallest number of bytes holding both sizes -/
def fsWidth (u c w : Option Int) : Nat :=
  match w with
  | some w' => w'.toNat
  | none => byteLen (max (u.getD 0) (c.getD 0)).toNat

theorem checkNonNeg_ok (v : Option Int) (u : Unit) : checkNonNeg v = .ok u ↔ ∀ x, v = some x → 0 ≤ x := by
  cases v with
  | none => simp [checkNonNeg]
  | some x => simp [checkNonNeg, guardPy_ok]

theorem checkAtMost_ok (mx : Int) (v : Option Int) (u : Unit) : checkAtMost mx v = .ok u ↔ ∀ x, v = some x → x ≤ mx := by
  cases v with
  | none => simp [checkAtMost]
  | some x => simp [checkAtMost, guardPy_ok]

theorem filesize_new_ok (u c w : Option Int) (f : FilesizeObj) :
    FilesizeObj.new u c w = .ok f ↔ (fsObjInDomain u c w ∧ f = { uncompressed := u, compressed := c, width := fsWidth u c w }) := by
  unfold FilesizeObj.new fsObjInDomain
  simp only [bind_ok, guardPy_ok, checkNonNeg_ok, pure_ok]
  cases w with
  | none =>
    simp only [filesizeWidth, pure_ok, fsWidth]
    constructor
    · rintro ⟨_, h0, _, h1, _, h2, w, rfl, rfl⟩
      refine ⟨⟨?_, h1, h2, by simp⟩, rfl⟩
      intro hh; simp [hh.1, hh.2] at h0
    · rintro ⟨⟨h0, h1, h2, _⟩, rfl⟩
      refine ⟨(), ?_, (), h1, (), h2, _, rfl, rfl⟩
      cases u <;> cases c <;> simp_all
  | some w' =>
    simp only [filesizeWidth, bind_ok, guardPy_ok, checkAtMost_ok, pure_ok, fsWidth, decide_eq_false_iff_not, Int.not_lt]
    constructor
    · rintro ⟨_, h0, _, h1, _, h2, w, ⟨_, hw, _, hc, _, hu, rfl⟩, rfl⟩
      refine ⟨⟨?_, h1, h2, ?_⟩, rfl⟩
      · intro hh; simp [hh.1, hh.2] at h0
      · intro w'' hw''; cases hw''; exact ⟨hw, hc, hu⟩
    · rintro ⟨⟨h0, h1, h2, h3⟩, rfl⟩
      obtain ⟨hw, hc, hu⟩ := h3 w' rfl
      refine ⟨(), ?_, (), h1, (), h2, _, ⟨(), hw, (), hc, (), hu, rfl⟩, rfl⟩
      cases u <;> cases c <;> simp_all

theorem pow256 (n : Nat) : (2 : Int) ^ (n * 8) = ((256 ^ n : Nat) : Int) := by
  have : (2 : Nat) ^ (n * 8) = 256 ^ n := by rw [Nat.mul_comm, Nat.pow_mul]
  rw [← this]; simp

theorem le_pow_sub_one {x : Int} {n : Nat} (h0 : 0 ≤ x) : x ≤ 2 ^ (n * 8) - 1 ↔ x.toNat < 256 ^ n := by
  rw [pow256]; omega

/-- what a filesize argument of `request_file_transfer` must satisfy: a valid object with an uncompressed size, and a width that
    fits the one-byte length field -/
def fsArgInDomain : FilesizeArg → Prop
  | .int v => 0 ≤ v ∧ byteLen v.toNat ≤ 255
  | .obj u c w => fsObjInDomain u c w ∧ (∃ x, u = some x) ∧ fsWidth u c w ≤ 255

def rftInDomain (moop : Int) (path : Bytes) (dfi : Option Nat) (fs : Option FilesizeArg) : Prop :=
  (1 ≤ moop ∧ moop ≤ 6) ∧ (1 ≤ path.length ∧ path.length ≤ 0xFFFF) ∧
  (if rftUsesDfi moop then ∀ b, dfi = some b → b < 256 else dfi = none) ∧
  (if rftUsesSize moop then ∃ arg, fs = some arg ∧ fsArgInDomain arg else fs = none) ∧
  (∀ u c w, fs = some (.obj u c w) → fsObjInDomain u c w)        -- the caller cannot even build an invalid Filesize object

theorem sizeBytes_ok (v : Option Int) (w : Nat) : (∃ b, sizeBytes v w = .ok b) ↔ ∀ x, v = some x → x.toNat < 256 ^ w := by
  cases v with
  | none => simp [sizeBytes]
  | some x => simp [sizeBytes, toBytesBE_ok]

theorem byteLen_max_lt (a b : Nat) : a < 256 ^ byteLen (max a b) ∧ b < 256 ^ byteLen (max a b) := by
  have h := (byteLen_spec (max a b)).1
  constructor <;> omega

/-- the normalised object of an in-domain argument always encodes -/
theorem rftNormalize_ok (x : Int ⊕ FilesizeObj) (harg : match x with
      | .inl v => 0 ≤ v
      | .inr f => ∃ u c w, fsObjInDomain u c w ∧ f = { uncompressed := u, compressed := c, width := fsWidth u c w } ∧ (∃ y, u = some y)) :
    ∃ f, rftNormalizeSize x = .ok f ∧ (∃ y, f.uncompressed = some y ∧ 0 ≤ y ∧ y.toNat < 256 ^ f.width) ∧
      (∃ z, f.compressed = some z ∧ 0 ≤ z ∧ z.toNat < 256 ^ f.width) ∧
      f.width = (match x with | .inl v => byteLen v.toNat | .inr g => g.width) := by
  unfold rftNormalizeSize
  cases x with
  | inl v =>
    simp only at harg
    have hd : fsObjInDomain (some v) none none := ⟨by simp, by simpa using harg, by simp, by simp⟩
    have h1 := (filesize_new_ok (some v) none none _).2 ⟨hd, rfl⟩
    have hw : fsWidth (some v) none none = byteLen v.toNat := by simp [fsWidth]; congr 1; omega
    have hlt := (byteLen_spec v.toNat).1
    have hd2 : fsObjInDomain (some v) (some v) (some ((byteLen v.toNat : Nat) : Int)) := by
      refine ⟨by simp, by simpa using harg, by simpa using harg, ?_⟩
      intro w' hw'; cases hw'
      refine ⟨by omega, ?_, ?_⟩ <;> (intro x hx; cases hx; rw [le_pow_sub_one harg]; simpa using hlt)
    have h2 := (filesize_new_ok (some v) (some v) (some ((byteLen v.toNat : Nat) : Int)) _).2 ⟨hd2, rfl⟩
    have hw2 : fsWidth (some v) (some v) (some ((byteLen v.toNat : Nat) : Int)) = byteLen v.toNat := by simp [fsWidth]
    rw [hw2] at h2
    refine ⟨{ uncompressed := some v, compressed := some v, width := byteLen v.toNat }, ?_, ⟨v, rfl, harg, hlt⟩, ⟨v, rfl, harg, hlt⟩, rfl⟩
    simp only [rftAsObj, bind_ok, guardPy_ok]
    refine ⟨_, h1, (), by simp, ?_⟩
    simp only [rftDefaultCompressed, Option.isNone_none, if_true, hw]
    exact h2
  | inr f =>
    obtain ⟨u, c, w, hd, rfl, ⟨y, rfl⟩⟩ := harg
    obtain ⟨h0, hu, hc, hw⟩ := hd
    have hy := hu y rfl
    have hyfit : y.toNat < 256 ^ fsWidth (some y) c w := by
      cases w with
      | some w' =>
        obtain ⟨_, _, h3⟩ := hw w' rfl
        have := h3 y rfl
        rw [le_pow_sub_one hy] at this; simpa [fsWidth] using this
      | none =>
        simp only [fsWidth, Option.getD_some]
        have := (byteLen_max_lt y.toNat (c.getD 0).toNat).1
        have e : (max y (c.getD 0)).toNat = max y.toNat (c.getD 0).toNat := by omega
        rw [e]; exact this
    cases c with
    | some z =>
      have hz := hc z rfl
      refine ⟨{ uncompressed := some y, compressed := some z, width := fsWidth (some y) (some z) w }, ?_, ⟨y, rfl, hy, hyfit⟩, ⟨z, rfl, hz, ?_⟩, rfl⟩
      · simp only [rftAsObj, bind_ok, guardPy_ok, pure_ok, exists_eq_left']
        exact ⟨(), by simp, by simp [rftDefaultCompressed]⟩
      · cases w with
        | some w' =>
          obtain ⟨_, h2, _⟩ := hw w' rfl
          have := h2 z rfl
          rw [le_pow_sub_one hz] at this; simpa [fsWidth] using this
        | none =>
          simp only [fsWidth, Option.getD_some]
          have := (byteLen_max_lt y.toNat z.toNat).2
          have e : (max y z).toNat = max y.toNat z.toNat := by omega
          rw [e]; exact this
    | none =>
      have hd2 : fsObjInDomain (some y) (some y) (some ((fsWidth (some y) none w : Nat) : Int)) := by
        refine ⟨by simp, by simpa using hy, by simpa using hy, ?_⟩
        intro w' hw'; cases hw'
        refine ⟨by omega, ?_, ?_⟩ <;> (intro x hx; cases hx; rw [le_pow_sub_one hy]; simpa using hyfit)
      have h2 := (filesize_new_ok (some y) (some y) (some ((fsWidth (some y) none w : Nat) : Int)) _).2 ⟨hd2, rfl⟩
      have hw2 : fsWidth (some y) (some y) (some ((fsWidth (some y) none w : Nat) : Int)) = fsWidth (some y) none w := by simp [fsWidth]
      rw [hw2] at h2
      refine ⟨{ uncompressed := some y, compressed := some y, width := fsWidth (some y) none w }, ?_, ⟨y, rfl, hy, hyfit⟩, ⟨y, rfl, hy, hyfit⟩, rfl⟩
      simp only [rftAsObj, bind_ok, guardPy_ok, pure_ok, exists_eq_left']
      refine ⟨(), by simp, ?_⟩
      simp only [rftDefaultCompressed, Option.isNone_none, if_true]
      exact h2

theorem rftSizeBytes_some_ok (f : FilesizeObj) :
    (∃ b, rftSizeBytes (some f) = .ok b) ↔
      (f.width < 256 ∧ (∀ x, f.uncompressed = some x → x.toNat < 256 ^ f.width) ∧ (∀ x, f.compressed = some x → x.toNat < 256 ^ f.width)) := by
  simp only [rftSizeBytes, bind_ok, toBytesBE_ok, pure_ok]
  constructor
  · rintro ⟨b, w, ⟨hw, _⟩, u, hu, c, hc, _⟩
    exact ⟨by simpa using hw, (sizeBytes_ok _ _).1 ⟨u, hu⟩, (sizeBytes_ok _ _).1 ⟨c, hc⟩⟩
  · rintro ⟨hw, hu, hc⟩
    obtain ⟨u, hu'⟩ := (sizeBytes_ok _ _).2 hu
    obtain ⟨c, hc'⟩ := (sizeBytes_ok _ _).2 hc
    exact ⟨_, _, ⟨by simpa using hw, rfl⟩, u, hu', c, hc', rfl⟩

/-- **RequestFileTransfer, acceptance**: every call in the documented domain is transmitted -/
theorem rft_in_domain_accepted (moop : Int) (path : Bytes) (dfi : Option Nat) (fs : Option FilesizeArg)
    (h : rftInDomain moop path dfi fs) : ∃ r, rftMakeRequest moop path dfi fs = .ok r := by
  obtain ⟨⟨m1, m2⟩, ⟨p1, p2⟩, hdfi, hfs, hobj⟩ := h
  -- the object handed in
  have hbuild : ∃ x, rftBuildArg fs = .ok x ∧ (∀ v, fs = some (.int v) → x = some (.inl v)) ∧ (fs = none → x = none) ∧
      (∀ u c w, fs = some (.obj u c w) → x = some (.inr { uncompressed := u, compressed := c, width := fsWidth u c w })) := by
    cases fs with
    | none => exact ⟨none, rfl, by simp, by simp, by simp⟩
    | some a =>
      cases a with
      | int v => exact ⟨some (.inl v), rfl, by simp, by simp, by simp⟩
      | obj u c w =>
        have := (filesize_new_ok u c w _).2 ⟨hobj u c w rfl, rfl⟩
        refine ⟨some (.inr { uncompressed := u, compressed := c, width := fsWidth u c w }), ?_, by simp, by simp, ?_⟩
        · simp only [rftBuildArg, bind_ok, pure_ok]; exact ⟨_, this, rfl⟩
        · intro u' c' w' he; cases he; rfl
  obtain ⟨x, hx, hxi, hxn, hxo⟩ := hbuild
  have hmoop : (!([1, 2, 3, 4, 5, 6] : List Int).contains moop) = false := by
    have : moop = 1 ∨ moop = 2 ∨ moop = 3 ∨ moop = 4 ∨ moop = 5 ∨ moop = 6 := by omega
    rcases this with h | h | h | h | h | h <;> subst h <;> decide
  -- dfi
  have hd : ∃ d, rftDfi moop dfi = .ok d ∧ ∃ db, rftDfiBytes d = .ok db := by
    unfold rftDfi
    by_cases hu : rftUsesDfi moop = true
    · simp only [hu, if_true] at hdfi ⊢
      refine ⟨_, rfl, ?_⟩
      cases dfi with
      | none => exact ⟨[UInt8.ofNat 0], by simp [rftDfiBytes, packB_ok]⟩
      | some b => exact ⟨[UInt8.ofNat b], by simp [rftDfiBytes, packB_ok, hdfi b rfl]⟩
    · simp only [hu, Bool.false_eq_true, if_false] at hdfi ⊢
      subst hdfi; exact ⟨none, by simp, [], rfl⟩
  obtain ⟨d, hd1, db, hd2⟩ := hd
  -- size
  have hs : ∃ f, rftSize moop x = .ok f ∧ ∃ sb, rftSizeBytes f = .ok sb := by
    unfold rftSize
    by_cases hu : rftUsesSize moop = true
    · simp only [hu, if_true] at hfs ⊢
      obtain ⟨arg, harg, hdom⟩ := hfs
      cases arg with
      | int v =>
        rw [hxi v harg]
        obtain ⟨f, hf, ⟨y, hy, _, hyf⟩, ⟨z, hz, _, hzf⟩, hw⟩ := rftNormalize_ok (.inl v) hdom.1
        refine ⟨some f, by simp only [bind_ok, pure_ok]; exact ⟨f, hf, rfl⟩, ?_⟩
        apply (rftSizeBytes_some_ok f).2
        refine ⟨?_, ?_, ?_⟩
        · rw [hw]; have := hdom.2; simp only; omega
        · intro x' hx'; rw [hy] at hx'; cases hx'; exact hyf
        · intro x' hx'; rw [hz] at hx'; cases hx'; exact hzf
      | obj u c w =>
        rw [hxo u c w harg]
        obtain ⟨hod, hsome, hwid⟩ := hdom
        obtain ⟨f, hf, ⟨y, hy, _, hyf⟩, ⟨z, hz, _, hzf⟩, hw⟩ := rftNormalize_ok (.inr { uncompressed := u, compressed := c, width := fsWidth u c w })
          ⟨u, c, w, hod, rfl, hsome⟩
        refine ⟨some f, by simp only [bind_ok, pure_ok]; exact ⟨f, hf, rfl⟩, ?_⟩
        apply (rftSizeBytes_some_ok f).2
        refine ⟨?_, ?_, ?_⟩
        · rw [hw]; simp only; omega
        · intro x' hx'; rw [hy] at hx'; cases hx'; exact hyf
        · intro x' hx'; rw [hz] at hx'; cases hx'; exact hzf
    · simp only [hu, Bool.false_eq_true, if_false] at hfs ⊢
      rw [hxn hfs]; exact ⟨none, by simp, [], rfl⟩
  obtain ⟨f, hf1, sb, hf2⟩ := hs
  refine ⟨mkReq "RequestFileTransfer" none (some ([UInt8.ofNat moop.toNat] ++ toBE 2 path.length ++ path ++ db ++ sb)), ?_⟩
  unfold rftMakeRequest
  simp only [bind_ok, guardPy_ok, pure_ok]
  have q1 : decide (path.length = 0) = false := by
    have : path.length ≠ 0 := by omega
    simp [this]
  have q2 : decide (path.length > 0xFFFF) = false := by
    have : ¬ path.length > 0xFFFF := by omega
    simp [this]
  exact ⟨x, hx, (), hmoop, (), q1, (), q2, d, hd1, f, hf1, db, hd2, sb, hf2, rfl⟩

/-- **RequestFileTransfer, rejection**: whatever is accepted is in the documented domain (so every out-of-domain call fails in
    `make_request`, before anything is sent) -/
theorem rft_accepted_in_domain (moop : Int) (path : Bytes) (dfi : Option Nat) (fs : Option FilesizeArg)
    (h : ∃ r, rftMakeRequest moop path dfi fs = .ok r) : rftInDomain moop path dfi fs := by
  obtain ⟨r, h⟩ := h
  unfold rftMakeRequest at h
  simp only [bind_ok, guardPy_ok, pure_ok] at h
  obtain ⟨x, hx, _, hmoop, _, q1, _, q2, d, hd1, f, hf1, db, hd2, sb, hf2, _⟩ := h
  have hm : 1 ≤ moop ∧ moop ≤ 6 := by
    simp only [Bool.not_eq_false', List.contains_iff_mem, List.mem_cons, List.not_mem_nil, or_false] at hmoop
    omega
  have hp : 1 ≤ path.length ∧ path.length ≤ 0xFFFF := by
    simp only [decide_eq_false_iff_not] at q1 q2; omega
  -- what the caller handed in
  have hobj : ∀ u c w, fs = some (.obj u c w) → (fsObjInDomain u c w ∧ x = some (.inr { uncompressed := u, compressed := c, width := fsWidth u c w })) := by
    intro u c w he; subst he
    simp only [rftBuildArg, bind_ok, pure_ok] at hx
    obtain ⟨g, hg, rfl⟩ := hx
    obtain ⟨hd, rfl⟩ := (filesize_new_ok u c w g).1 hg
    exact ⟨hd, rfl⟩
  have hint : ∀ v, fs = some (.int v) → x = some (.inl v) := by
    intro v he; subst he; simp [rftBuildArg] at hx; exact hx.symm
  have hnone : fs = none ↔ x = none := by
    cases fs with
    | none => simp [rftBuildArg] at hx; simp [hx]
    | some a =>
      cases a with
      | int v => have := hint v rfl; simp [this]
      | obj u c w => have := (hobj u c w rfl).2; simp [this]
  refine ⟨hm, hp, ?_, ?_, fun u c w he => (hobj u c w he).1⟩
  · -- DataFormatIdentifier
    unfold rftDfi at hd1
    by_cases hu : rftUsesDfi moop = true
    · simp only [hu, if_true, pure_ok] at hd1 ⊢
      subst hd1
      intro b hb; subst hb
      simp only [rftDfiBytes, Option.getD_some, packB_ok] at hd2; exact hd2.1
    · simp only [hu, Bool.false_eq_true, if_false] at hd1 ⊢
      cases dfi with
      | none => rfl
      | some b => simp at hd1
  · -- file size
    unfold rftSize at hf1
    by_cases hu : rftUsesSize moop = true
    · simp only [hu, if_true] at hf1 ⊢
      cases hxx : x with
      | none => simp [hxx] at hf1
      | some y =>
        simp only [hxx, bind_ok, pure_ok] at hf1
        obtain ⟨g, hg, rfl⟩ := hf1
        obtain ⟨hw, _, _⟩ := (rftSizeBytes_some_ok g).1 ⟨sb, hf2⟩
        cases hfs : fs with
        | none => exact absurd (hnone.1 hfs) (by simp [hxx])
        | some a =>
          refine ⟨a, rfl, ?_⟩
          cases a with
          | int v =>
            have := hint v hfs; rw [hxx] at this; cases this
            simp only [rftNormalizeSize, rftAsObj, bind_ok, guardPy_ok] at hg
            obtain ⟨g0, hg0, _, _, hg1⟩ := hg
            obtain ⟨hd0, rfl⟩ := (filesize_new_ok (some v) none none g0).1 hg0
            have hv : 0 ≤ v := hd0.2.1 v rfl
            simp only [rftDefaultCompressed, Option.isNone_none, if_true] at hg1
            obtain ⟨_, rfl⟩ := (filesize_new_ok _ _ _ g).1 hg1
            refine ⟨hv, ?_⟩
            have e : fsWidth (some v) none none = byteLen v.toNat := by simp [fsWidth]; congr 1; omega
            simp only [fsWidth, Int.toNat_natCast] at hw
            rw [← e]; simp only [fsWidth]; omega
          | obj u c w =>
            obtain ⟨hod, hx'⟩ := hobj u c w hfs
            rw [hxx] at hx'; cases hx'
            simp only [rftNormalizeSize, rftAsObj, bind_ok, guardPy_ok, pure_ok, exists_eq_left'] at hg
            obtain ⟨_, hsome, hg1⟩ := hg
            have hu' : ∃ x, u = some x := by
              cases u with
              | none => simp at hsome
              | some x => exact ⟨x, rfl⟩
            refine ⟨hod, hu', ?_⟩
            unfold rftDefaultCompressed at hg1
            by_cases hc : c.isNone = true
            · simp only [hc, if_true] at hg1
              obtain ⟨_, rfl⟩ := (filesize_new_ok _ _ _ g).1 hg1
              simp only [fsWidth, Int.toNat_natCast] at hw
              simp only [fsWidth]; omega
            · simp only [hc, Bool.false_eq_true, if_false, pure_ok] at hg1
              subst hg1; simp only at hw; omega
    · simp only [hu, Bool.false_eq_true, if_false] at hf1 ⊢
      cases hxx : x with
      | none => exact hnone.2 hxx
      | some y => simp [hxx] at hf1

theorem rft_accepts_iff (moop : Int) (path : Bytes) (dfi : Option Nat) (fs : Option FilesizeArg) :
    (∃ r, rftMakeRequest moop path dfi fs = .ok r) ↔ rftInDomain moop path dfi fs :=
  ⟨rft_accepted_in_domain moop path dfi fs, rft_in_domain_accepted moop path dfi fs⟩

/-! ### Authentication -/

def lenOk (p : Option Bytes) : Prop := ∀ b, p = some b → b.length ≤ 0xFFFF
def algo16 (p : Option Bytes) : Prop := ∃ b, p = some b ∧ b.length = 16

/-- the parameters each authentication task takes (ISO 14229-1:2020 §10.6); parameters a task does not take are not looked at
    (known finding, as for ReadDTCInformation) -/
def authTaskDomain (a : AuthArgs) : Nat → Prop
  | 0 => True
  | 8 => True
  | 1 => inRange a.commConf 0xFF ∧ lenOk a.certClient ∧ lenOk a.challengeClient
  | 2 => inRange a.commConf 0xFF ∧ lenOk a.certClient ∧ lenOk a.challengeClient
  | 5 => inRange a.commConf 0xFF ∧ algo16 a.algo
  | 3 => lenOk a.pownClient ∧ lenOk a.ephKeyClient
  | 4 => inRange a.certEvalId 0xFFFF ∧ lenOk a.certData
  | _ => algo16 a.algo ∧ lenOk a.pownClient ∧ lenOk a.challengeClient ∧ lenOk a.addParam

def authInDomain (a : AuthArgs) : Prop := 0 ≤ a.task ∧ a.task ≤ 8 ∧ authTaskDomain a a.task.toNat

theorem lenPrefixed_ok (p : Option Bytes) : (∃ b, lenPrefixed p = .ok b) ↔ lenOk p := by
  unfold lenPrefixed lenOk
  cases p with
  | none => simp
  | some b =>
    by_cases h : b.length > 0xFFFF
    · simp [h]
    · simp [h]; omega

theorem needAlgo_ok (p : Option Bytes) : (∃ b, needAlgo p = .ok b) ↔ algo16 p := by
  unfold needAlgo algo16
  cases p with
  | none => simp
  | some b =>
    by_cases h : b.length = 16
    · simp [h]
    · simp [h]

theorem bind_ex' {α β : Type} (x : Py α) (f : α → Py β) (P Q : Prop) (hx : (∃ a, x = .ok a) ↔ P)
    (hf : ∀ a, (∃ b, f a = .ok b) ↔ Q) : (∃ b, (x >>= f) = .ok b) ↔ (P ∧ Q) := by
  simp only [bind_ok]
  constructor
  · rintro ⟨b, a, ha, hb⟩; exact ⟨hx.1 ⟨a, ha⟩, (hf a).1 ⟨b, hb⟩⟩
  · rintro ⟨hp, hq⟩
    obtain ⟨a, ha⟩ := hx.2 hp
    obtain ⟨b, hb⟩ := (hf a).2 hq
    exact ⟨b, a, ha, hb⟩

theorem pure_ex' {α : Type} (a : α) : (∃ b, (pure a : Py α) = .ok b) ↔ True := ⟨fun _ => trivial, fun _ => ⟨a, rfl⟩⟩

theorem authData_ok (a : AuthArgs) (t : Nat) : (∃ d, authData a t = .ok d) ↔ authTaskDomain a t := by
  unfold authData authTaskDomain
  split
  · exact pure_ex' _
  · exact pure_ex' _
  · refine (bind_ex' _ _ _ _ (needInt_ex _ _) (fun _ => bind_ex' _ _ _ _ (lenPrefixed_ok _) (fun _ => bind_ex' _ _ _ _ (lenPrefixed_ok _) (fun _ => pure_ex' _)))).trans ?_
    simp
  · refine (bind_ex' _ _ _ _ (needInt_ex _ _) (fun _ => bind_ex' _ _ _ _ (lenPrefixed_ok _) (fun _ => bind_ex' _ _ _ _ (lenPrefixed_ok _) (fun _ => pure_ex' _)))).trans ?_
    simp
  · refine (bind_ex' _ _ _ _ (needInt_ex _ _) (fun _ => bind_ex' _ _ _ _ (needAlgo_ok _) (fun _ => pure_ex' _))).trans ?_
    simp
  · refine (bind_ex' _ _ _ _ (lenPrefixed_ok _) (fun _ => bind_ex' _ _ _ _ (lenPrefixed_ok _) (fun _ => pure_ex' _))).trans ?_
    simp
  · refine (bind_ex' _ _ _ _ (needInt_ex _ _) (fun _ => bind_ex' _ _ _ _ (lenPrefixed_ok _) (fun _ => pure_ex' _))).trans ?_
    simp
  · refine (bind_ex' _ _ _ _ (needAlgo_ok _) (fun _ => bind_ex' _ _ _ _ (lenPrefixed_ok _) (fun _ => bind_ex' _ _ _ _ (lenPrefixed_ok _)
      (fun _ => bind_ex' _ _ _ _ (lenPrefixed_ok _) (fun _ => pure_ex' _))))).trans ?_
    simp

theorem auth_accepts_iff (a : AuthArgs) : (∃ r, authMakeRequest a = .ok r) ↔ authInDomain a := by
  unfold authMakeRequest authInDomain
  simp only [bind_ok, validateInt_ok, pure_ok]
  constructor
  · rintro ⟨r, _, ⟨h1, h2⟩, d, hd, _⟩; exact ⟨h1, h2, (authData_ok a _).1 ⟨d, hd⟩⟩
  · rintro ⟨h1, h2, h3⟩; obtain ⟨d, hd⟩ := (authData_ok a _).2 h3; exact ⟨_, (), ⟨h1, h2⟩, d, hd, rfl⟩

/-! ### DynamicallyDefineDataIdentifier (by source DID, clear) -/

def dddSrcInDomain (e : DddSrc) : Prop :=
  0 ≤ e.sourceDid ∧ e.sourceDid ≤ 0xFFFF ∧ 0 ≤ e.position ∧ e.position ≤ 0xFF ∧ 0 ≤ e.size ∧ e.size ≤ 0xFF

def dddByDidInDomain (did : Int) (entries : List DddSrc) : Prop :=
  0 ≤ did ∧ did ≤ 0xFFFF ∧ entries ≠ [] ∧ ∀ e ∈ entries, dddSrcInDomain e

theorem dddCheck_ok (e : DddSrc) (u : Unit) :
    e.check = .ok u ↔ (0 ≤ e.sourceDid ∧ e.sourceDid ≤ 0xFFFF ∧ 0 ≤ e.position ∧ 0 ≤ e.size) := by
  unfold DddSrc.check
  by_cases h1 : (e.sourceDid > 0xFFFF || e.sourceDid < 0) = true
  · simp only [h1, if_true, throw_ok, false_iff]; simp at h1; omega
  · simp only [h1, Bool.false_eq_true, if_false]; simp at h1
    by_cases h2 : e.position < 0
    · simp [h2]; omega
    · by_cases h3 : e.size < 0
      · simp [h2, h3]
      · simp [h2, h3]; omega

theorem forM_check_ok (entries : List DddSrc) (u : Unit) :
    dddCheckAll entries = .ok u ↔ ∀ e ∈ entries, (0 ≤ e.sourceDid ∧ e.sourceDid ≤ 0xFFFF ∧ 0 ≤ e.position ∧ 0 ≤ e.size) := by
  induction entries with
  | nil => simp [dddCheckAll]
  | cons e rest ih =>
    simp only [dddCheckAll, bind_ok, dddCheck_ok, List.mem_cons, forall_eq_or_imp]
    constructor
    · rintro ⟨_, h1, h2⟩; exact ⟨h1, (ih).1 h2⟩
    · rintro ⟨h1, h2⟩; exact ⟨(), h1, (ih).2 h2⟩

theorem dddSrcBytes_ok (entries : List DddSrc) :
    (∃ b, dddSrcBytes entries = .ok b) ↔ ∀ e ∈ entries, (e.position ≤ 0xFF ∧ e.size ≤ 0xFF) := by
  induction entries with
  | nil => simp [dddSrcBytes]
  | cons e rest ih =>
    simp only [dddSrcBytes, bind_ok, guardPy_ok, pure_ok, List.mem_cons, forall_eq_or_imp]
    constructor
    · rintro ⟨b, _, hg, tl, htl, _⟩
      refine ⟨by simp at hg; omega, ih.1 ⟨tl, htl⟩⟩
    · rintro ⟨h1, h2⟩
      obtain ⟨tl, htl⟩ := ih.2 h2
      refine ⟨_, (), by simp; omega, tl, htl, rfl⟩

theorem dddByDid_accepts_iff (did : Int) (entries : List DddSrc) :
    (∃ r, dddByDidMakeRequest did entries = .ok r) ↔ dddByDidInDomain did entries := by
  unfold dddByDidMakeRequest dddByDidInDomain
  simp only [bind_ok, forM_check_ok, validateInt_ok, guardPy_ok, pure_ok]
  constructor
  · rintro ⟨r, _, h1, _, ⟨d1, d2⟩, _, hne, b, hb, _⟩
    have h2 := (dddSrcBytes_ok entries).1 ⟨b, hb⟩
    refine ⟨d1, d2, by intro h; simp [h] at hne, ?_⟩
    intro e he; have := h1 e he; have := h2 e he; unfold dddSrcInDomain; omega
  · rintro ⟨d1, d2, hne, h⟩
    obtain ⟨b, hb⟩ := (dddSrcBytes_ok entries).2 (fun e he => by have := h e he; unfold dddSrcInDomain at this; omega)
    refine ⟨_, (), fun e he => by have := h e he; unfold dddSrcInDomain at this; omega, (), ⟨d1, d2⟩, (), ?_, b, hb, rfl⟩
    cases entries with
    | nil => exact absurd rfl hne
    | cons _ _ => rfl

theorem dddClear_accepts_iff (did : Option Int) :
    (∃ r, dddClearMakeRequest did = .ok r) ↔ (∀ d, did = some d → 0 ≤ d ∧ d ≤ 0xFFFF) := by
  unfold dddClearMakeRequest
  cases did with
  | none => simp
  | some d =>
    simp only [bind_ok, validateInt_ok, pure_ok, Option.some.injEq, forall_eq']
    constructor
    · rintro ⟨_, _, h, _⟩; exact h
    · intro h; exact ⟨_, (), h, rfl⟩

/-! ### memory-addressed requests: see `Uds.Props.C14.wire_ok_iff` (a value that does not fit its width is rejected) -/

/-! ### the simple services -/

theorem ite_ok {α : Type} {c : Prop} [Decidable c] (x y : Py α) (b : α) :
    (if c then x else y) = .ok b ↔ ((c ∧ x = .ok b) ∨ (¬ c ∧ y = .ok b)) := by
  split <;> simp [*]

/-- documented domains of the simple services (sub-function 0..0x7F, identifiers 16 bit, sequence counter 8 bit, DTC group
    24 bit, memory selection only from 2020, timing record only with setTimingParametersToGivenValues) -/
def simpleInDomain (std : Nat) : Entry → Prop
  | .changeSession n => 0 ≤ n ∧ n ≤ 0x7F
  | .ecuReset t => 0 ≤ t ∧ t ≤ 0x7F
  | .requestSeed l _ => 1 ≤ l ∧ l ≤ 0x7E
  | .sendKey l _ => 1 ≤ l ∧ l ≤ 0x7E
  | .testerPresent => True
  | .accessTiming t r => 0 ≤ t ∧ t ≤ 0x7F ∧ (r.isSome = true ↔ t = 4)
  | .controlDtc t _ => 0 ≤ t ∧ t ≤ 0x7F
  | .routineControl rid ct _ => 0 ≤ rid ∧ rid ≤ 0xFFFF ∧ 0 ≤ ct ∧ ct ≤ 0x7F
  | .transferData s _ => 0 ≤ s ∧ s ≤ 0xFF
  | .transferExit _ => True
  | .clearDtc g m => 0 ≤ g ∧ g ≤ 0xFFFFFF ∧ ∀ x, m = some x → (2020 ≤ std ∧ 0 ≤ x ∧ x ≤ 0xFF)
  | .commControl _ _ _ => True          -- stated separately: `commControl_accepts_iff`
  | .linkControl _ _ => True            -- stated separately: `linkControl_accepts_iff`

theorem simple_accepts_iff (std : Nat) (e : Entry) (hk : ∀ a b c, e ≠ .commControl a b c) (hl : ∀ a b, e ≠ .linkControl a b) :
    (∃ r, e.makeRequest std = .ok r) ↔ simpleInDomain std e := by
  cases e with
  | changeSession n => simp [Entry.makeRequest, dscMakeRequest, simpleInDomain, map_ok, validateInt_ok]
  | ecuReset t => simp [Entry.makeRequest, ecuResetMakeRequest, simpleInDomain, map_ok, validateInt_ok]
  | requestSeed l d =>
    simp only [Entry.makeRequest, saMakeRequest, normalizeLevel, simpleInDomain, bind_ok, validateInt_ok, pure_ok]
    constructor
    · rintro ⟨r, _, _, n, ⟨_, h, _⟩, _⟩; exact h
    · intro h; exact ⟨_, (), by omega, _, ⟨(), h, rfl⟩, rfl⟩
  | sendKey l d =>
    simp only [Entry.makeRequest, saMakeRequest, normalizeLevel, simpleInDomain, bind_ok, validateInt_ok, pure_ok]
    constructor
    · rintro ⟨r, _, _, n, ⟨_, h, _⟩, _⟩; exact h
    · intro h; exact ⟨_, (), by omega, _, ⟨(), h, rfl⟩, rfl⟩
  | testerPresent => simp [Entry.makeRequest, testerPresentMakeRequest, simpleInDomain]
  | commControl a b c => exact absurd rfl (hk a b c)
  | accessTiming t r =>
    simp only [Entry.makeRequest, accessTimingMakeRequest, simpleInDomain, bind_ok, validateInt_ok, ite_ok, throw_ok, and_false, false_or, pure_ok,
      exists_and_left, exists_eq_left', exists_const]
    cases r <;> simp <;> omega
  | controlDtc t d => simp [Entry.makeRequest, controlDtcMakeRequest, simpleInDomain, map_ok, validateInt_ok]
  | linkControl a b => exact absurd rfl (hl a b)
  | routineControl rid ct d =>
    simp only [Entry.makeRequest, routineControlMakeRequest, simpleInDomain, bind_ok, validateInt_ok, pure_ok]
    constructor
    · rintro ⟨r, _, h1, _, h2, _⟩; exact ⟨h1.1, h1.2, h2.1, h2.2⟩
    · rintro ⟨a, b, c, d'⟩; exact ⟨_, (), ⟨a, b⟩, (), ⟨c, d'⟩, rfl⟩
  | transferData s d => simp [Entry.makeRequest, transferDataMakeRequest, simpleInDomain, map_ok, validateInt_ok]
  | transferExit d => simp [Entry.makeRequest, transferExitMakeRequest, simpleInDomain]
  | clearDtc g m =>
    simp only [Entry.makeRequest, clearDtcMakeRequest, simpleInDomain, bind_ok, validateInt_ok]
    cases m with
    | none => simp
    | some x =>
      simp only [ite_ok, throw_ok, and_false, false_or, bind_ok, validateInt_ok, pure_ok, Option.some.injEq, forall_eq']
      constructor
      · rintro ⟨r, _, ⟨g1, g2⟩, h⟩
        rcases h with ⟨_, _, hf, _⟩ | ⟨hstd, _, hx, _⟩
        · exact absurd hf id
        · exact ⟨g1, g2, by omega, hx.1, hx.2⟩
      · rintro ⟨g1, g2, hs, x1, x2⟩; exact ⟨_, (), ⟨g1, g2⟩, Or.inr ⟨by omega, (), ⟨x1, x2⟩, rfl⟩⟩

/-! ### communication_control and link_control (the two entries `simple_accepts_iff` leaves out) -/

theorem commtype_ok_iff (c : Nat) : (∃ x, CommType.fromByte c = .ok x) ↔ (c ≤ 0xFF ∧ c &&& 0x03 ≠ 0 ∧ c &&& 0x0C = 0) := by
  by_cases hc : c ≤ 0xFF
  · have := Uds.Props.C19.commtype_accepts_all ⟨c, by omega⟩
    simp only at this
    constructor
    · rintro ⟨x, hx⟩
      rw [hx] at this
      simp only [Bool.true_eq, Bool.and_eq_true, decide_eq_true_eq] at this
      exact ⟨hc, this.1, this.2⟩
    · rintro ⟨_, h1, h2⟩
      cases hf : CommType.fromByte c with
      | ok x => exact ⟨x, rfl⟩
      | error e =>
        rw [hf] at this
        simp [h1, h2] at this
  · constructor
    · rintro ⟨x, hx⟩
      rw [Uds.Props.C19.commtype_rejects_wide c (by omega)] at hx; cases hx
    · rintro ⟨h, _⟩; exact absurd h hc

theorem commtype_byte_lt (c : Nat) (x : CommType) (h : CommType.fromByte c = .ok x) : x.toByte < 256 := by
  have hc : c ≤ 0xFF := ((commtype_ok_iff c).1 ⟨x, h⟩).1
  have := Uds.Props.C19.commtype_encode_decode c (by omega) x h
  omega

def commInDomain (std : Nat) (ct : Int) (c : Nat) (node : Option Int) : Prop :=
  0 ≤ ct ∧ ct ≤ 0x7F ∧ (c ≤ 0xFF ∧ c &&& 0x03 ≠ 0 ∧ c &&& 0x0C = 0) ∧
  (node.isSome = true ↔ (2013 ≤ std ∧ (ct = 4 ∨ ct = 5))) ∧ ∀ n, node = some n → 0 ≤ n ∧ n ≤ 0xFFFF

/-- **communication_control**: accepted exactly on the documented domain (control type 7 bits, a message type selected and reserved bits
    clear in the communication type, a 16-bit node identifier exactly when the 2013+ editions require one) -/
theorem commControl_accepts_iff (std : Nat) (ct : Int) (c : Nat) (node : Option Int) :
    (∃ r, commControlMakeRequest std ct c node = .ok r) ↔ commInDomain std ct c node := by
  unfold commInDomain
  rw [← commtype_ok_iff]
  simp only [commControlMakeRequest, bind_ok, validateInt_ok, ite_throw_bind_ok]
  constructor
  · rintro ⟨r, _, ⟨h1, h2⟩, hA, hB, x, hx, p, hp, hr⟩
    refine ⟨h1, h2, ⟨x, hx⟩, ?_, ?_⟩
    · cases node with
      | none =>
        simp only [Option.isSome_none, Bool.false_eq_true, false_iff]
        intro hreq
        apply hA
        simp [hreq.1, hreq.2]
      | some n =>
        simp only [Option.isSome_some, true_iff]
        by_cases hreq : (decide (std ≥ 2013) && (ct == 4 || ct == 5)) = true
        · simp only [Bool.and_eq_true, decide_eq_true_eq, Bool.or_eq_true, beq_iff_eq] at hreq
          exact hreq
        · exfalso; apply hB; simp [hreq]
    · intro n hn
      subst hn
      simp only [bind_ok, validateInt_ok, pure_ok] at hr
      obtain ⟨_, h, _⟩ := hr
      exact h
  · rintro ⟨h1, h2, ⟨x, hx⟩, hnode, hn⟩
    have hp : packB x.toByte = .ok [UInt8.ofNat x.toByte] := packB_ok.2 ⟨commtype_byte_lt c x hx, rfl⟩
    cases node with
    | none =>
      have hreq : ¬ (2013 ≤ std ∧ (ct = 4 ∨ ct = 5)) := by
        intro h; have := hnode.2 h; simp at this
      refine ⟨_, (), ⟨h1, h2⟩, ?_, ?_, x, hx, _, hp, rfl⟩
      · intro hc
        simp only [Option.isNone_none, Bool.and_true, Bool.and_eq_true, decide_eq_true_eq, Bool.or_eq_true, beq_iff_eq] at hc
        exact hreq hc
      · simp
    | some n =>
      have hreq : 2013 ≤ std ∧ (ct = 4 ∨ ct = 5) := hnode.1 rfl
      obtain ⟨n1, n2⟩ := hn n rfl
      refine ⟨mkReq "CommunicationControl" (some ct.toNat) (some ([UInt8.ofNat x.toByte] ++ toBE 2 n.toNat)), (), ⟨h1, h2⟩, ?_, ?_, x, hx, _, hp, ?_⟩
      · simp
      · intro hc
        simp only [Option.isSome_some, Bool.and_true, Bool.not_eq_true', Bool.and_eq_false_iff, decide_eq_false_iff_not, Bool.or_eq_false_iff,
          beq_eq_false_iff_ne] at hc
        rcases hc with hc | hc
        · exact hc hreq.1
        · rcases hreq.2 with h | h
          · exact hc.1 h
          · exact hc.2 h
      · simp only [bind_ok, validateInt_ok, pure_ok]
        exact ⟨(), ⟨n1, n2⟩, trivial⟩

def baudEff (b : Baudrate) : Option Nat :=
  match b.baudtype with
  | .identifier => (baudrateMap.find? (·.2 == b.baudrate)).map (·.1)
  | _ => some b.baudrate

/-- documented domain of link_control: a baud rate exactly with control types 1 and 2; type 2 sends the effective rate on 3 bytes
    (a standard identifier stands for its rate); type 1 needs one of the standard rates (or a baud-rate identifier, sent as it is) -/
def linkInDomain (ct : Int) (baud : Option Baudrate) : Prop :=
  0 ≤ ct ∧ ct ≤ 0x7F ∧ ((ct = 1 ∨ ct = 2) ↔ baud.isSome = true) ∧
  ∀ b, baud = some b →
    (ct = 2 → ∃ e, baudEff b = some e ∧ e ≤ 0xFFFFFF) ∧
    (ct = 1 → b.baudtype ≠ .identifier → (baudFixedId b.baudrate).isSome = true)

theorem effective_ok (b : Baudrate) (e : Nat) : b.effective = .ok e ↔ baudEff b = some e := by
  unfold Baudrate.effective baudEff
  cases b.baudtype <;> simp only
  · simp [pure, Except.pure]
  · simp [pure, Except.pure]
  · cases h : baudrateMap.find? (fun x => x.2 == b.baudrate) with
    | none => simp [throw, throwThe, MonadExceptOf.throw]
    | some x => simp [pure, Except.pure]

theorem getBytes_ok (b : Baudrate) : (∃ bs, b.getBytes = .ok bs) ↔ (b.baudtype = .fixed → (baudFixedId b.baudrate).isSome = true) := by
  unfold Baudrate.getBytes
  cases hb : b.baudtype <;> simp only
  · cases hf : baudFixedId b.baudrate with
    | none => simp [throw, throwThe, MonadExceptOf.throw]
    | some i => simp [pure, Except.pure]
  · simp [pure, Except.pure]
  · simp [pure, Except.pure]

theorem mkNat_specific (e : Nat) (x : Baudrate) : Baudrate.mkNat e (some (some .specific)) = .ok x ↔ (e ≤ 0xFFFFFF ∧ x = ⟨e, .specific⟩) := by
  simp only [Baudrate.mkNat]
  by_cases h : e > 0xFFFFFF
  · simp [h]; omega
  · simp [h, pure, Except.pure]; constructor
    · intro hx; exact ⟨by omega, hx.symm⟩
    · intro hx; exact hx.2.symm

theorem mkNat_fixed (e : Nat) (x : Baudrate) : Baudrate.mkNat e (some (some .fixed)) = .ok x ↔ ((baudFixedId e).isSome = true ∧ x = ⟨e, .fixed⟩) := by
  simp only [Baudrate.mkNat]
  cases h : baudFixedId e with
  | none => simp
  | some i => simp [pure, Except.pure]; exact eq_comm

/-- what `linkBaud` + `getBytes` need, per control type and baud-rate type -/
theorem linkBaud_bytes_ok (ct : Int) (b : Baudrate) :
    (∃ b' bs, linkBaud ct b = .ok b' ∧ b'.getBytes = .ok bs) ↔
      ((ct = 2 → ∃ e, baudEff b = some e ∧ e ≤ 0xFFFFFF) ∧
       (ct ≠ 2 → b.baudtype ≠ .identifier → (baudFixedId b.baudrate).isSome = true ∨ (ct ≠ 1 ∧ b.baudtype = .specific))) := by
  unfold linkBaud
  by_cases h2 : ct = 2
  · subst h2
    simp only [beq_self_eq_true, if_true, Baudrate.makeNewType, show (BaudType.specific == BaudType.identifier) = false by decide, Bool.false_eq_true,
      if_false, bind_ok, effective_ok, mkNat_specific, ne_eq, not_true_eq_false, false_implies, and_true, forall_const]
    constructor
    · rintro ⟨b', bs, ⟨e, he, hle, rfl⟩, _⟩; exact ⟨e, he, hle⟩
    · rintro ⟨e, he, hle⟩
      exact ⟨⟨e, .specific⟩, [UInt8.ofNat ((e >>> 16) &&& 0xFF), UInt8.ofNat ((e >>> 8) &&& 0xFF), UInt8.ofNat (e &&& 0xFF)], ⟨e, he, hle, rfl⟩, rfl⟩
  · have h2' : (ct == 2) = false := by simpa using h2
    simp only [h2', Bool.false_eq_true, if_false, h2, false_implies, true_and, ne_eq, not_false_eq_true, forall_const]
    by_cases hc : (ct == 1 && b.baudtype == BaudType.specific) = true
    · simp only [hc, if_true, Baudrate.makeNewType, show (BaudType.fixed == BaudType.identifier) = false by decide, Bool.false_eq_true, if_false, bind_ok,
        effective_ok, mkNat_fixed]
      simp only [Bool.and_eq_true, beq_iff_eq] at hc
      obtain ⟨h1, hsp⟩ := hc
      have heff : baudEff b = some b.baudrate := by simp [baudEff, hsp]
      constructor
      · rintro ⟨b', bs, ⟨e, he, hfx, rfl⟩, _⟩ _
        rw [heff] at he; cases he
        exact Or.inl hfx
      · intro h
        have hne : ¬ b.baudtype = .identifier := by rw [hsp]; decide
        rcases h hne with hfx | ⟨hn1, _⟩
        · refine ⟨⟨b.baudrate, .fixed⟩, ?_, ⟨b.baudrate, heff, hfx, rfl⟩, ?_⟩
          · exact [UInt8.ofNat ((baudFixedId b.baudrate).getD 0)]
          · cases hf : baudFixedId b.baudrate with
            | none => simp [hf] at hfx
            | some i => simp [Baudrate.getBytes, hf, pure, Except.pure]
        · exact absurd h1 hn1
    · simp only [hc, Bool.false_eq_true, if_false, pure_ok]
      have hex : (∃ b' bs, b = b' ∧ b'.getBytes = Except.ok bs) ↔ ∃ bs, b.getBytes = .ok bs := by
        constructor
        · rintro ⟨_, bs, rfl, h⟩; exact ⟨bs, h⟩
        · rintro ⟨bs, h⟩; exact ⟨b, bs, rfl, h⟩
      rw [hex, getBytes_ok]
      simp only [Bool.and_eq_true, beq_iff_eq, not_and] at hc
      constructor
      · intro h hni
        cases hbt : b.baudtype with
        | fixed => exact Or.inl (h hbt)
        | specific => exact Or.inr ⟨fun h1 => hc h1 hbt, rfl⟩
        | identifier => exact absurd hbt hni
      · intro h hfx
        have hni : ¬ b.baudtype = .identifier := by rw [hfx]; decide
        rcases h hni with h | ⟨_, hsp⟩
        · exact h
        · rw [hfx] at hsp; cases hsp

/-- **link_control**: accepted exactly on the documented domain -/
theorem linkControl_accepts_iff (ct : Int) (baud : Option Baudrate) :
    (∃ r, linkControlMakeRequest ct baud = .ok r) ↔ linkInDomain ct baud := by
  unfold linkInDomain linkControlMakeRequest linkCheckPresence
  simp only [bind_ok, validateInt_ok]
  cases baud with
  | none =>
    simp only [Option.isNone_none, Option.isSome_none, pure_ok, Bool.false_eq_true, iff_false, not_or, reduceCtorEq, false_implies, implies_true, and_true]
    constructor
    · rintro ⟨r, _, ⟨h0, h1⟩, _, hp, _⟩
      refine ⟨h0, h1, ?_⟩
      by_cases h12 : (ct == 1 || ct == 2) = true
      · rw [if_pos h12] at hp; simp [guardPy] at hp
      · simpa using h12
    · rintro ⟨h0, h1, hn1, hn2⟩
      have h12 : ¬ (ct == 1 || ct == 2) = true := by simp [hn1, hn2]
      exact ⟨_, (), ⟨h0, h1⟩, (), by rw [if_neg h12]; rfl, rfl⟩
  | some b =>
    simp only [Option.isNone_some, Option.isSome_some, iff_true, bind_ok, pure_ok, Option.some.injEq, forall_eq']
    constructor
    · rintro ⟨r, _, ⟨h0, h1⟩, _, hp, b', hb', bs, hbs, _⟩
      have h12 : ct = 1 ∨ ct = 2 := by
        by_cases hx : (ct == 1 || ct == 2) = true
        · simpa using hx
        · rw [if_neg hx] at hp; simp [guardPy] at hp
      obtain ⟨hA, hB⟩ := (linkBaud_bytes_ok ct b).1 ⟨b', bs, hb', hbs⟩
      refine ⟨h0, h1, h12, hA, ?_⟩
      intro hc1 hni
      have hn2 : ct ≠ 2 := by omega
      rcases hB hn2 hni with h | ⟨hn1, _⟩
      · exact h
      · exact absurd hc1 hn1
    · rintro ⟨h0, h1, h12, hA, hB⟩
      have hx : (ct == 1 || ct == 2) = true := by simpa using h12
      have hB' : ct ≠ 2 → b.baudtype ≠ .identifier → (baudFixedId b.baudrate).isSome = true ∨ (ct ≠ 1 ∧ b.baudtype = .specific) := by
        intro hn2 hni
        have h1' : ct = 1 := by rcases h12 with h | h; exact h; exact absurd h hn2
        exact Or.inl (hB h1' hni)
      obtain ⟨b', bs, hb', hbs⟩ := (linkBaud_bytes_ok ct b).2 ⟨hA, hB'⟩
      exact ⟨_, (), ⟨h0, h1⟩, (), by rw [if_pos hx]; rfl, b', hb', bs, hbs, rfl⟩

/-! ### non-vacuity: concrete in-domain and out-of-domain instances -/
example : wdbiInDomain { entries := [(0x1234, some 2)] } 0x1234 [0xBE, 0xEF] := by
  refine ⟨by decide, by decide, some 2, by decide, ?_⟩; intro n h; cases h; rfl
example : ¬ wdbiInDomain { entries := [(0x1234, some 2)] } 0x1234 [0xBE] := by
  rintro ⟨_, _, l, hl, h⟩
  have : l = some 2 := by simpa [DidCfg.find] using hl.symm
  subst this; have := h 2 rfl; simp at this
example : rftInDomain 1 [0x61] none (some (.int 0x1234)) := by
  refine ⟨by decide, by decide, by simp [rftUsesDfi], ?_, by simp⟩
  simp only [rftUsesSize]; refine ⟨_, rfl, by decide, ?_⟩
  have := byteLen_le_of_lt (n := (0x1234 : Int).toNat) (k := 2) (by decide); omega
example : ¬ authInDomain { task := 5, commConf := some 1 } := by
  rintro ⟨_, _, h⟩; obtain ⟨_, b, hb, _⟩ := h; simp at hb

end Uds.Props.C07
