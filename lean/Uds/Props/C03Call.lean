import Uds.Props.C03
import Uds.Props.C01
/-
  C03 at call level for the service families that are not `Entry` constructors: a client method built on `callWith`
  (request builder → `send_request` → the method's interpretation and echo checks) hands a value to its caller only if
  the frame that was transmitted is the builder's frame (the ISO encoding of the arguments, C01), a valid positive response of
  that very service arrived, and the echoes in its data repeat the transmitted arguments — for every arrival schedule (any 0x78
  frames before it, junk after it) and every client state without a payload override.
-/
namespace Uds.Props.C03
open Uds Uds.Model Uds.Props.C07

theorem or80_mod : ∀ x : Fin 256, (UInt8.ofNat (x.val ||| 0x80)).toNat % 128 = (UInt8.ofNat x.val).toNat % 128 := by decide +kernel

/-- `p` is `p0` except possibly for bit 7 of its second byte (the suppress-positive-response bit) -/
def UpToBit7 (p p0 : Bytes) : Prop := p.length = p0.length ∧ p[0]? = p0[0]? ∧ frameSf p = frameSf p0 ∧ p.drop 2 = p0.drop 2

/-- whatever `send_request` puts on the wire for `req` (no payload override) is the payload of `req` up to the suppress bit, and exactly
    that payload for a service without sub-function -/
theorem framed_upToBit7 (req : Request) (p0 p : Bytes) (h0 : req.getPayload none = .ok p0) (hf : Framed req p) :
    UpToBit7 p p0 ∧ ∃ svc, req.service = some svc ∧ svc.sid < 256 ∧ p0[0]? = some (UInt8.ofNat svc.sid) ∧ (svc.useSubfn = false → p = p0) := by
  rcases hf with hf | hf
  · unfold Request.getPayload at h0 hf
    cases hs : req.service with
    | none => simp [hs] at h0
    | some svc =>
      simp only [hs] at h0 hf
      by_cases hu : svc.useSubfn = true
      · simp only [hu, if_true] at h0 hf
        cases hsf : req.subfunction with
        | none => simp [hsf] at h0
        | some sf0 =>
          simp only [hsf, bind_ok, packB_ok, pure_ok] at h0 hf
          obtain ⟨a, ⟨h1, rfl⟩, b, ⟨h2, rfl⟩, rfl⟩ := h0
          obtain ⟨a', ⟨_, rfl⟩, b', ⟨h2', rfl⟩, rfl⟩ := hf
          refine ⟨⟨by simp, by simp, ?_, by simp⟩, svc, rfl, h1, by simp, fun h => by rw [hu] at h; cases h⟩
          by_cases hspr : req.spr = true
          · simp [hspr]
          · simp only [hspr, Bool.false_eq_true, if_false] at h2 ⊢
            simp only [frameSf, List.cons_append, List.nil_append, List.getElem?_cons_succ, List.getElem?_cons_zero, Option.map_some, setBit7]
            exact congrArg some (or80_mod ⟨sf0, h2⟩)
      · simp only [hu, Bool.false_eq_true, if_false] at hf
        simp at hf
  · rw [h0] at hf; cases hf
    unfold Request.getPayload at h0
    cases hs : req.service with
    | none => simp [hs] at h0
    | some svc =>
      simp only [hs] at h0
      refine ⟨⟨rfl, rfl, rfl, rfl⟩, svc, rfl, ?_⟩
      by_cases hu : svc.useSubfn = true
      · simp only [hu, if_true] at h0
        cases hsf : req.subfunction with
        | none => simp [hsf] at h0
        | some sf0 =>
          simp only [hsf, bind_ok, packB_ok, pure_ok] at h0
          obtain ⟨a, ⟨h1, rfl⟩, b, ⟨h2, rfl⟩, rfl⟩ := h0
          exact ⟨h1, by simp, fun _ => rfl⟩
      · simp only [hu, Bool.false_eq_true, if_false] at h0
        split at h0
        · simp at h0
        · simp only [bind_ok, packB_ok, pure_ok] at h0
          obtain ⟨a, ⟨h1, rfl⟩, rfl⟩ := h0
          exact ⟨h1, by simp, fun _ => rfl⟩

/-- **any client method** (`callWith`): a value is returned only if
    * the frame that went out is the request's payload `p0` up to the suppress bit (exactly `p0` when the service has no sub-function),
    * some arrival `f` is a valid positive response whose first byte is the first byte of `p0` plus 0x40 (the response identifier of the
      very service of the request), and
    * the method's own interpretation and echo checks accepted the data of that response with the value returned. -/
theorem callWith_accepts_only_answers {α : Type} (cfg : SendCfg) (st : ClientState) (req : Request) (post : Bytes → Py α)
    (arr : List Frame) (v : α) (p0 : Bytes) (hp0 : req.getPayload none = .ok p0) (hov : st.override = none)
    (h : callWith cfg st req post arr = .ret (some v)) :
    ∃ p rest svc f b tail, (sendRequest cfg st req none arr).log = .flush :: .send p :: rest ∧ UpToBit7 p p0 ∧
      req.service = some svc ∧ (svc.useSubfn = false → p = p0) ∧
      f ∈ arr ∧ f.payload = b :: tail ∧ p0[0]?.map (fun x => x.toNat + 0x40) = some b.toNat ∧
      (Response.fromPayload f.payload).positive = true ∧ (Response.fromPayload f.payload).valid = true ∧
      post (Response.fromPayload f.payload).data = .ok v := by
  unfold callWith at h
  cases ho : (sendRequest cfg st req none arr).outcome with
  | none => simp [ho] at h
  | raised a b c => simp [ho] at h
  | resp r =>
    simp only [ho] at h
    cases hp : post r.data with
    | error e => simp [hp] at h
    | ok w =>
      simp only [hp] at h
      have hw : w = v := by injection h with h; injection h
      subst hw
      obtain ⟨p, rest, hlog, hf⟩ := send_resp_frame cfg st req none arr r hov ho
      obtain ⟨svc, s, f, hsvc, hfa, hfp, hrs, hsid, hpos, hval⟩ := send_resp_sid cfg st req none arr r ho
      subst hfp
      obtain ⟨hup, svc', hsvc', hlt, hfirst, hexact⟩ := framed_upToBit7 req p0 p hp0 hf
      rw [hsvc] at hsvc'; cases hsvc'
      obtain ⟨b, tail, hpay, hb⟩ := positive_first_byte f.payload s hrs hpos
      refine ⟨p, rest, svc, f, b, tail, hlog, hup, hsvc, hexact, hfa, hpay, ?_, hpos, hval, hp⟩
      rw [hfirst, Option.map_some, toNat_ofNat_lt hlt, hb, hsid]

/-! ### the families: the request is whatever the family's builder returned, the frame is the one C01 proves to be the ISO encoding of the arguments -/

/-- `write_data_by_identifier` returns only if exactly `2E did value` went out, a valid positive response starting with `6E` arrived, and the
    identifier echoed in it is the identifier that was transmitted -/
theorem wdbi_call_accepts_only_answers (cfg : SendCfg) (st : ClientState) (c : DidCfg) (did : Int) (value : Bytes) (req : Request)
    (arr : List Frame) (v : SData) (hov : st.override = none) (hm : wdbiMakeRequest c did value = .ok req)
    (h : callWith cfg st req (wdbiClient did.toNat) arr = .ret (some v)) :
    ∃ rest f tail, (sendRequest cfg st req none arr).log = .flush :: .send (0x2E :: (toBE 2 did.toNat ++ value)) :: rest ∧
      f ∈ arr ∧ f.payload = 0x6E :: tail ∧ (Response.fromPayload f.payload).valid = true ∧
      2 ≤ (Response.fromPayload f.payload).data.length ∧ fromBE ((Response.fromPayload f.payload).data.take 2) = did.toNat := by
  have hp0 := (C01.wdbi_frame_decodes c did value req {} hm).1
  obtain ⟨p, rest, svc, f, b, tail, hlog, _, hsvc, hexact, hfa, hpay, hb, _, hval, hpost⟩ :=
    callWith_accepts_only_answers cfg st req _ arr v _ hp0 hov h
  have hsv : svc.useSubfn = false := by
    unfold wdbiMakeRequest at hm
    simp only [bind_ok, validateInt_ok, pure_ok, encodeVal_ok] at hm
    obtain ⟨_, _, cc, _, l, _, bb, _, rfl⟩ := hm
    have : (mkReq "WriteDataByIdentifier" none (some _)).service = some svc := hsvc
    simp only [mkReq, C01.svc_wdbi, Option.some.injEq] at this
    rw [← this]
  obtain ⟨e1, e2⟩ := wdbi_echo _ _ _ hpost
  have hb' : b = 0x6E := by
    simp only [List.getElem?_cons_zero, Option.map_some, Option.some.injEq] at hb
    exact UInt8.toNat_inj.mp (by rw [← hb]; rfl)
  rw [hexact hsv] at hlog
  exact ⟨rest, f, tail, hlog, hfa, by rw [hpay, hb'], hval, e1, e2⟩

theorem byte_of_toNat (b : UInt8) (n : Nat) (hn : n < 256) (h : n = b.toNat) : b = UInt8.ofNat n := by
  apply UInt8.toNat_inj.mp
  rw [toNat_ofNat_lt hn, h]

/-- `read_data_by_identifier` returns only if exactly `22 did…` went out, a valid positive response starting with `62` arrived, every
    identifier in it is one that was requested and every requested identifier is in it -/
theorem rdbi_call_accepts_only_answers (cfg : SendCfg) (st : ClientState) (c : DidCfg) (tol : Bool) (dids : List Int) (req : Request)
    (arr : List Frame) (v : SData) (hov : st.override = none) (hm : rdbiMakeRequest (some c) dids = .ok req)
    (h : callWith cfg st req (rdbiClient c tol (dids.map Int.toNat)) arr = .ret (some v)) :
    ∃ rest f tail vals, (sendRequest cfg st req none arr).log = .flush :: .send (0x22 :: beList 2 (dids.map Int.toNat)) :: rest ∧
      f ∈ arr ∧ f.payload = 0x62 :: tail ∧ (Response.fromPayload f.payload).valid = true ∧
      v = .rdbi vals ∧ (∀ x ∈ vals, x.1 ∈ dids.map Int.toNat) ∧ (∀ x ∈ dids.map Int.toNat, ∃ y ∈ vals, y.1 = x) := by
  have hp0 := (C01.rdbi_frame_decodes (some c) dids req {} hm).1
  obtain ⟨p, rest, svc, f, b, tail, hlog, _, hsvc, hexact, hfa, hpay, hb, _, hval, hpost⟩ :=
    callWith_accepts_only_answers cfg st req _ arr v _ hp0 hov h
  have hsv : svc.useSubfn = false := by
    unfold rdbiMakeRequest at hm
    simp only [bind_ok, validateDidList_ok, pure_ok] at hm
    obtain ⟨ds, _, _, _, rfl⟩ := hm
    have : (mkReq "ReadDataByIdentifier" none (some _)).service = some svc := hsvc
    simp only [mkReq, C01.svc_rdbi, Option.some.injEq] at this
    rw [← this]
  obtain ⟨vals, e1, e2, e3⟩ := rdbi_echo _ _ _ _ _ hpost
  have hb' : b = 0x62 := by
    simp only [List.getElem?_cons_zero, Option.map_some, Option.some.injEq] at hb
    exact byte_of_toNat b 0x62 (by decide) hb
  rw [hexact hsv] at hlog
  exact ⟨rest, f, tail, vals, hlog, hfa, by rw [hpay, hb'], hval, e1, e2, e3⟩

/-- `io_control` returns only if exactly `2F did [control parameter] values masks` went out, a valid positive response starting with `6F`
    arrived, the identifier echoed is the one transmitted and so is the control parameter when one was sent -/
theorem io_call_accepts_only_answers (cfg : SendCfg) (st : ClientState) (c : IoCfg) (tol : Bool) (did : Int) (cp : Option Int) (values : Option Bytes)
    (masks : Option MaskArg) (req : Request) (arr : List Frame) (v : SData) (hov : st.override = none)
    (hm : ioMakeRequest c did cp values masks = .ok req)
    (h : callWith cfg st req (ioClient c did.toNat (cp.map Int.toNat) tol) arr = .ret (some v)) :
    ∃ rest f tail e m, c.find did.toNat = some e ∧ ioMaskPart e masks = .ok m ∧
      (sendRequest cfg st req none arr).log = .flush :: .send (0x2F :: (toBE 2 did.toNat ++ C01.cpBytes cp ++ values.getD [] ++ m)) :: rest ∧
      f ∈ arr ∧ f.payload = 0x6F :: tail ∧ (Response.fromPayload f.payload).valid = true ∧
      2 ≤ (Response.fromPayload f.payload).data.length ∧ fromBE ((Response.fromPayload f.payload).data.take 2) = did.toNat ∧
      (∀ x, cp = some x → (Response.fromPayload f.payload).data[2]?.map (·.toNat) = some x.toNat) := by
  obtain ⟨e, m, hfind, hmask, hp0, _⟩ := C01.io_frame_decodes c did cp values masks req hm
  obtain ⟨p, rest, svc, f, b, tail, hlog, _, hsvc, hexact, hfa, hpay, hb, _, hval, hpost⟩ :=
    callWith_accepts_only_answers cfg st req _ arr v _ hp0 hov h
  have hsv : svc.useSubfn = false := by
    unfold ioMakeRequest at hm
    simp only [bind_ok, validateInt_ok, guardPy_ok, pure_ok] at hm
    obtain ⟨_, _, _, _, _, _, e', _, c', _, v', _, m', _, rfl⟩ := hm
    have : (mkReq "InputOutputControlByIdentifier" none (some _)).service = some svc := hsvc
    simp only [mkReq, C01.svc_io, Option.some.injEq] at this
    rw [← this]
  obtain ⟨e1, e2, e3⟩ := io_echo _ _ _ _ _ _ hpost
  have hb' : b = 0x6F := by
    simp only [List.getElem?_cons_zero, Option.map_some, Option.some.injEq] at hb
    exact byte_of_toNat b 0x6F (by decide) hb
  rw [hexact hsv] at hlog
  refine ⟨rest, f, tail, e, m, hfind, hmask, hlog, hfa, by rw [hpay, hb'], hval, e1, e2, ?_⟩
  intro x hx
  exact e3 x.toNat (by rw [hx]; rfl)

/-- `request_file_transfer` returns only if the builder's frame `38 mode path…` went out, a valid positive response starting with `78` arrived,
    the mode of operation echoed is the one transmitted, and so is the data format identifier where the reply carries one -/
theorem rft_call_accepts_only_answers (cfg : SendCfg) (st : ClientState) (tol : Bool) (moop : Int) (path : Bytes) (dfi : Option Nat)
    (fs : Option FilesizeArg) (req : Request) (arr : List Frame) (v : SData) (hov : st.override = none)
    (hm : rftMakeRequest moop path dfi fs = .ok req)
    (h : callWith cfg st req (rftClient moop.toNat dfi tol) arr = .ret (some v)) :
    ∃ rest f tail frame, req.getPayload none = .ok frame ∧ Spec.decodeRequest {} frame ≠ none ∧
      (sendRequest cfg st req none arr).log = .flush :: .send frame :: rest ∧
      f ∈ arr ∧ f.payload = 0x78 :: tail ∧ (Response.fromPayload f.payload).valid = true ∧
      (Response.fromPayload f.payload).data[0]?.map (·.toNat) = some moop.toNat ∧
      (∀ x, dfi = some x → rftHasLfid moop.toNat = true →
        ∃ l, (Response.fromPayload f.payload).data[1]? = some l ∧ (Response.fromPayload f.payload).data[2 + l.toNat]?.map (·.toNat) = some x) := by
  obtain ⟨frame, x, g, hp0, _, _, hdec⟩ := C01.rft_frame_decodes moop path dfi fs req {} hm
  obtain ⟨p, rest, svc, f, b, tail, hlog, _, hsvc, hexact, hfa, hpay, hb, _, hval, hpost⟩ :=
    callWith_accepts_only_answers cfg st req _ arr v _ hp0 hov h
  obtain ⟨_, _, z, _, _, _, _, _, hpay0, _⟩ := C01.rft_layout_partial moop path dfi fs req hm
  obtain ⟨rest0, hfr⟩ : ∃ t, frame = 0x38 :: t := ⟨_, by have := hp0.symm.trans hpay0; injection this⟩
  have hsv : svc.useSubfn = false := by
    unfold rftMakeRequest at hm
    simp only [bind_ok, guardPy_ok, pure_ok] at hm
    obtain ⟨_, _, _, _, _, _, _, _, _, _, _, _, _, _, _, _, rfl⟩ := hm
    have : (mkReq "RequestFileTransfer" none (some _)).service = some svc := hsvc
    simp only [mkReq, C01.svc_rft, Option.some.injEq] at this
    rw [← this]
  obtain ⟨e1, e2⟩ := rft_echo _ _ _ _ _ hpost
  have hb' : b = 0x78 := by
    rw [hfr] at hb
    simp only [List.getElem?_cons_zero, Option.map_some, Option.some.injEq] at hb
    exact byte_of_toNat b 0x78 (by decide) hb
  rw [hexact hsv] at hlog
  exact ⟨rest, f, tail, frame, hp0, by rw [hdec]; simp, hlog, hfa, by rw [hpay, hb'], hval, e1, e2⟩

/-- `authentication` returns only if `29 task…` went out (bit 7 of the task byte set only inside a suppress block), a valid positive response
    starting with `69` arrived, and the task echoed is the task transmitted -/
theorem auth_call_accepts_only_answers (cfg : SendCfg) (st : ClientState) (a : AuthArgs) (req : Request) (arr : List Frame) (v : SData)
    (hov : st.override = none) (hm : authMakeRequest a = .ok req)
    (h : callWith cfg st req (authClient a.task.toNat) arr = .ret (some v)) :
    ∃ p rest f tail data, (sendRequest cfg st req none arr).log = .flush :: .send p :: rest ∧
      UpToBit7 p (0x29 :: UInt8.ofNat a.task.toNat :: data) ∧
      f ∈ arr ∧ f.payload = 0x69 :: tail ∧ (Response.fromPayload f.payload).valid = true ∧
      (Response.fromPayload f.payload).data[0]?.map (·.toNat) = frameSf p := by
  obtain ⟨data, hp0, _, htask⟩ := C01.auth_frame_decodes a req {} hm
  obtain ⟨p, rest, svc, f, b, tail, hlog, hup, hsvc, hexact, hfa, hpay, hb, _, hval, hpost⟩ :=
    callWith_accepts_only_answers cfg st req _ arr v _ hp0 hov h
  have e1 := auth_echo _ _ _ hpost
  have hb' : b = 0x69 := by
    simp only [List.getElem?_cons_zero, Option.map_some, Option.some.injEq] at hb
    exact byte_of_toNat b 0x69 (by decide) hb
  have ht : a.task.toNat < 128 := by
    unfold authMakeRequest at hm
    simp only [bind_ok, validateInt_ok, pure_ok] at hm
    obtain ⟨_, ⟨t1, t2⟩, _⟩ := hm
    omega
  refine ⟨p, rest, f, tail, data, hlog, hup, hfa, by rw [hpay, hb'], hval, ?_⟩
  rw [e1, hup.2.2.1]
  simp only [frameSf, List.getElem?_cons_succ, List.getElem?_cons_zero, Option.map_some, toNat_ofNat_lt (show a.task.toNat < 256 by omega)]
  congr 1; omega

/-- `read_dtc_information` (every group with a reply layout) returns only if `19 sf…` went out (bit 7 only inside a suppress block), a valid
    positive response starting with `59` arrived whose sub-function echo is the sub-function transmitted; the remaining echoes
    (memory selection, functional group, record numbers, snapshot DTC) follow from `dtcClient … = .ok v` by the part-C theorems -/
theorem dtc_call_accepts_only_answers (cfg : SendCfg) (st : ClientState) (c : DtcCfg) (a : DtcArgs) (q : DtcReqCtx) (req : Request) (arr : List Frame)
    (v : DtcData) (hov : st.override = none) (hqs : q.sf = a.sf) (hg : dtcReqGroup a.sf.toNat ≠ .other) (hm : dtcMakeRequest c.std a = .ok req)
    (h : callWith cfg st req (dtcClient c q) arr = .ret (some v)) :
    ∃ p rest f tail data, (sendRequest cfg st req none arr).log = .flush :: .send p :: rest ∧
      UpToBit7 p (0x19 :: UInt8.ofNat a.sf.toNat :: data) ∧
      f ∈ arr ∧ f.payload = 0x59 :: tail ∧ (Response.fromPayload f.payload).valid = true ∧
      dtcClient c q (Response.fromPayload f.payload).data = .ok v ∧
      (Response.fromPayload f.payload).data[0]?.map (·.toNat) = frameSf p := by
  obtain ⟨data, sev, _, hp0, _, hsfi⟩ := C01.dtc_frame_decodes c.std a req {} hm hg
  obtain ⟨p, rest, svc, f, b, tail, hlog, hup, hsvc, hexact, hfa, hpay, hb, _, hval, hpost⟩ :=
    callWith_accepts_only_answers cfg st req _ arr v _ hp0 hov h
  obtain ⟨b0, e1, e2⟩ := dtc_sf_echo _ _ _ _ hpost
  have hb' : b = 0x59 := by
    simp only [List.getElem?_cons_zero, Option.map_some, Option.some.injEq] at hb
    exact byte_of_toNat b 0x59 (by decide) hb
  have ht : a.sf.toNat < 128 := by
    unfold dtcMakeRequest at hm
    simp only [bind_ok, checkSubfunctionValid_ok, pure_ok] at hm
    obtain ⟨_, ⟨s1, s2, _, _⟩, _⟩ := hm
    omega
  refine ⟨p, rest, f, tail, data, hlog, hup, hfa, by rw [hpay, hb'], hval, hpost, ?_⟩
  rw [e1, hup.2.2.1]
  simp only [frameSf, List.getElem?_cons_succ, List.getElem?_cons_zero, Option.map_some, toNat_ofNat_lt (show a.sf.toNat < 256 by omega)]
  congr 1
  have : (b0.toNat : Int) = a.sf := by rw [e2, hqs]
  omega

/-! ### non-vacuity: a matching reply is handed over, a reply echoing another identifier is not -/

example : callWith ⟨some 100, 50, 500, false⟩ {} (mkReq "WriteDataByIdentifier" none (some [0x12, 0x34, 0xAA])) (wdbiClient 0x1234)
    [⟨3, [0x6E, 0x12, 0x34]⟩] = .ret (some (.wdbi 0x1234)) := by decide +kernel
example : callWith ⟨some 100, 50, 500, false⟩ {} (mkReq "WriteDataByIdentifier" none (some [0x12, 0x34, 0xAA])) (wdbiClient 0x1234)
    [⟨3, [0x6E, 0x12, 0x35]⟩] = .exc .unexpected := by decide +kernel

end Uds.Props.C03
