import Uds.Lemmas.MemLoc
/-
  C14 — memory address/size widths: explicit, else configured, else smallest; lossless.
  Property theorems only (helper lemmas live in Uds/Lemmas/MemLoc.lean).
-/
namespace Uds.Props.C14
open Uds Uds.Model

/-- every documented width -/
def Width (w : Int) : Prop := w = 8 ∨ w = 16 ∨ w = 24 ∨ w = 32 ∨ w = 40 ∨ w = 48 ∨ w = 56 ∨ w = 64

theorem widthOk_iff (w : Int) : widthOk w = true ↔ Width w := by
  unfold widthOk Width; simp [Bool.or_eq_true]; omega

/-- **smallest width**: for every value 0 ≤ v < 2^64 automatic sizing picks `8·k` bits where `k ≥ 1` is the least
    number of bytes holding `v`; at or above 2^64 it refuses -/
theorem autosize_smallest (v : Int) (h0 : 0 ≤ v) (h : v < 2 ^ 64) :
    ∃ k, autosize v = .ok (8 * k) ∧ 1 ≤ k ∧ k ≤ 8 ∧ v.toNat < 256 ^ k ∧ (k = 1 ∨ 256 ^ (k - 1) ≤ v.toNat) := by
  have hv : v.natAbs = v.toNat := by omega
  have hlt : v.toNat < 256 ^ 8 := by
    have : (256 : Nat) ^ 8 = 2 ^ 64 := by decide
    omega
  have hle := byteLen_le_of_lt hlt
  obtain ⟨s1, s2⟩ := byteLen_spec v.toNat
  refine ⟨max 1 (byteLen v.toNat), ?_, by omega, by omega, ?_, ?_⟩
  · unfold autosize; rw [hv]
    have : ¬ (max 1 (byteLen v.toNat) * 8 > 64) := by omega
    simp only [this, if_false]; rw [Nat.mul_comm]; rfl
  · by_cases hb : byteLen v.toNat = 0
    · rw [hb] at s1; simp at s1; rw [hb]; simp; omega
    · have : max 1 (byteLen v.toNat) = byteLen v.toNat := by omega
      rw [this]; exact s1
  · by_cases hb : byteLen v.toNat ≤ 1
    · left; omega
    · right
      have : max 1 (byteLen v.toNat) = byteLen v.toNat := by omega
      rw [this]; rcases s2 with s2 | s2
      · omega
      · exact s2

theorem autosize_refuses (v : Int) (h : 2 ^ 64 ≤ v) : autosize v = .error .valueErr := by
  have hv : v.natAbs = v.toNat := by omega
  unfold autosize; rw [hv]
  have : 9 ≤ byteLen v.toNat := by
    by_cases hb : 9 ≤ byteLen v.toNat
    · exact hb
    · exfalso
      have h1 := (byteLen_spec v.toNat).1
      have : byteLen v.toNat ≤ 8 := by omega
      have h2 := Nat.pow_le_pow_right (n := 256) (by omega) this
      have : (256 : Nat) ^ 8 = 2 ^ 64 := by decide
      omega
  have : max 1 (byteLen v.toNat) * 8 > 64 := by omega
  simp [this, throw, throwThe, MonadExceptOf.throw]

/-- the width a field ends up with: the caller's explicit format, else the configured one, else automatic -/
def resolved (explicit cfg : Option Int) (v : Int) : Py Int :=
  match explicit with
  | some x => pure x
  | none => match cfg with
    | some y => pure y
    | none => resolveFmt none v

theorem mkAlfid_ok {a m : Int} {x y : Nat} (h : mkAlfid a m = .ok (x, y)) :
    Width a ∧ Width m ∧ (x : Int) = a ∧ (y : Int) = m := by
  unfold mkAlfid at h
  by_cases ha : widthOk a <;> by_cases hm : widthOk m <;> simp [ha, hm, pure, Except.pure, throw, throwThe, MonadExceptOf.throw] at h
  have ha' := (widthOk_iff a).1 ha
  have hm' := (widthOk_iff m).1 hm
  refine ⟨ha', hm', ?_, ?_⟩
  · rw [← h.1]; unfold Width at ha'; omega
  · rw [← h.2]; unfold Width at hm'; omega

theorem new_ok {a s : Int} {af mf : Option Int} {ml : MemLoc} (h : MemLoc.new a s af mf = .ok ml) :
    ∃ x y, resolveFmt af a = .ok x ∧ resolveFmt mf s = .ok y ∧ mkAlfid x y = .ok (ml.alfidA, ml.alfidM)
      ∧ ml.address = a ∧ ml.size = s ∧ ml.af = af ∧ ml.mf = mf := by
  unfold MemLoc.new at h
  cases hx : resolveFmt af a with
  | error e => simp [hx, bind, Except.bind] at h
  | ok x =>
    cases hy : resolveFmt mf s with
    | error e => simp [hx, hy, bind, Except.bind] at h
    | ok y =>
      cases hz : mkAlfid x y with
      | error e => simp [hx, hy, hz, bind, Except.bind] at h
      | ok p =>
        obtain ⟨p1, p2⟩ := p
        simp [hx, hy, hz, bind, Except.bind, pure, Except.pure] at h
        subst h
        exact ⟨x, y, rfl, rfl, by simp [hz], rfl, rfl, rfl, rfl⟩

def pick (given cur : Option Int) : Option Int := match given, cur with | some x, none => some x | _, c => c

theorem sfin_ok {ml ml' : MemLoc} {af mf : Option Int} (h : ml.setFormatIfNone af mf = .ok ml') :
    ∃ x y, resolveFmt (pick af ml.af) ml.address = .ok x ∧ resolveFmt (pick mf ml.mf) ml.size = .ok y
      ∧ mkAlfid x y = .ok (ml'.alfidA, ml'.alfidM)
      ∧ ml'.address = ml.address ∧ ml'.size = ml.size ∧ ml'.af = pick af ml.af ∧ ml'.mf = pick mf ml.mf := by
  unfold MemLoc.setFormatIfNone at h
  simp only [] at h
  change (do
    let a ← resolveFmt (pick af ml.af) ml.address
    let m ← resolveFmt (pick mf ml.mf) ml.size
    let (x, y) ← mkAlfid a m
    pure { ml with af := pick af ml.af, mf := pick mf ml.mf, alfidA := x, alfidM := y } : Py MemLoc) = .ok ml' at h
  cases hx : resolveFmt (pick af ml.af) ml.address with
  | error e => simp [hx, bind, Except.bind] at h
  | ok x =>
    cases hy : resolveFmt (pick mf ml.mf) ml.size with
    | error e => simp [hx, hy, bind, Except.bind] at h
    | ok y =>
      cases hz : mkAlfid x y with
      | error e => simp [hx, hy, hz, bind, Except.bind] at h
      | ok p =>
        obtain ⟨p1, p2⟩ := p
        simp [hx, hy, hz, bind, Except.bind, pure, Except.pure] at h
        subst h
        exact ⟨x, y, rfl, rfl, by simp [hz], rfl, rfl, rfl, rfl⟩

/-- **precedence**: after construction and the client's `set_format_if_none` calls, the widths announced by the
    format byte are `explicit, else configured, else smallest`, for address and size independently; both are
    documented widths and address and size are untouched -/
theorem width_resolution (a s : Int) (af mf caf cmf : Option Int) (ml ml' : MemLoc)
    (h1 : MemLoc.new a s af mf = .ok ml) (h2 : ml.applyConfig caf cmf = .ok ml') :
    resolved af caf a = .ok (ml'.alfidA : Int) ∧ resolved mf cmf s = .ok (ml'.alfidM : Int)
    ∧ Width ml'.alfidA ∧ Width ml'.alfidM ∧ ml'.address = a ∧ ml'.size = s := by
  obtain ⟨x0, y0, _, _, _, ha, hs, haf, hmf⟩ := new_ok h1
  unfold MemLoc.applyConfig at h2
  cases h3 : ml.setFormatIfNone caf none with
  | error e => simp [h3, bind, Except.bind] at h2
  | ok ml1 =>
    simp [h3, bind, Except.bind] at h2
    obtain ⟨x1, y1, _, _, _, ha1, hs1, haf1, hmf1⟩ := sfin_ok h3
    obtain ⟨x2, y2, hx2, hy2, hz2, ha2, hs2, haf2, hmf2⟩ := sfin_ok h2
    obtain ⟨w1, w2, e1, e2⟩ := mkAlfid_ok hz2
    rw [e1, e2]
    refine ⟨?_, ?_, w1, w2, by rw [ha2, ha1, ha], by rw [hs2, hs1, hs]⟩
    · rw [haf1, haf, ha1, ha] at hx2
      cases af <;> cases caf <;> simpa [resolved, pick, resolveFmt] using hx2
    · rw [hmf1, hmf, hs1, hs] at hy2
      cases mf <;> cases cmf <;> simpa [resolved, pick, resolveFmt] using hy2

theorem alfid_nibbles (A M : Nat) (hA : Width A) (hM : Width M) :
    (UInt8.ofNat ((((M / 8) <<< 4) ||| (A / 8)) &&& 0xFF)).toNat % 16 = A / 8
    ∧ (UInt8.ofNat ((((M / 8) <<< 4) ||| (A / 8)) &&& 0xFF)).toNat / 16 = M / 8
    ∧ A / 8 ≠ 0 ∧ M / 8 ≠ 0 := by
  unfold Width at hA hM
  have hA' : A = 8 ∨ A = 16 ∨ A = 24 ∨ A = 32 ∨ A = 40 ∨ A = 48 ∨ A = 56 ∨ A = 64 := by omega
  have hM' : M = 8 ∨ M = 16 ∨ M = 24 ∨ M = 32 ∨ M = 40 ∨ M = 48 ∨ M = 56 ∨ M = 64 := by omega
  rcases hA' with h | h | h | h | h | h | h | h <;> rcases hM' with g | g | g | g | g | g | g | g <;>
    subst h <;> subst g <;> decide

theorem wire_ok {ml : MemLoc} {w : Bytes} (h : ml.wire = .ok w) :
    0 ≤ ml.address ∧ ml.address.toNat < 256 ^ (ml.alfidA / 8) ∧ 0 ≤ ml.size ∧ ml.size.toNat < 256 ^ (ml.alfidM / 8)
    ∧ w = [UInt8.ofNat ml.alfidByte] ++ toBE (ml.alfidA / 8) ml.address.toNat ++ toBE (ml.alfidM / 8) ml.size.toNat := by
  unfold MemLoc.wire MemLoc.addressBytes MemLoc.sizeBytes at h
  cases ha : fieldBytes ml.address ml.alfidA with
  | error e => simp [ha, bind, Except.bind] at h
  | ok a =>
    cases hs : fieldBytes ml.size ml.alfidM with
    | error e => simp [ha, hs, bind, Except.bind] at h
    | ok s =>
      simp [ha, hs, bind, Except.bind, pure, Except.pure] at h
      obtain ⟨a1, a2, a3⟩ := (fieldBytes_ok_iff _ _ _).1 ha
      obtain ⟨s1, s2, s3⟩ := (fieldBytes_ok_iff _ _ _).1 hs
      refine ⟨a1, a2, s1, s2, ?_⟩
      rw [← h, a3, s3]; simp

/-- **fits ⇔ transmitted**: the request part is produced exactly when address and size are non-negative and fit the
    announced widths; otherwise the call fails before anything is built (nothing is cut or wrapped) -/
theorem wire_ok_iff (ml : MemLoc) :
    (∃ w, ml.wire = .ok w) ↔
      (0 ≤ ml.address ∧ ml.address.toNat < 256 ^ (ml.alfidA / 8) ∧ 0 ≤ ml.size ∧ ml.size.toNat < 256 ^ (ml.alfidM / 8)) := by
  constructor
  · rintro ⟨w, h⟩; obtain ⟨a, b, c, d, _⟩ := wire_ok h; exact ⟨a, b, c, d⟩
  · rintro ⟨a, b, c, d⟩
    have ha := (fieldBytes_ok_iff ml.address ml.alfidA _).2 ⟨a, b, rfl⟩
    have hs := (fieldBytes_ok_iff ml.size ml.alfidM _).2 ⟨c, d, rfl⟩
    refine ⟨[UInt8.ofNat ml.alfidByte] ++ toBE (ml.alfidA / 8) ml.address.toNat ++ toBE (ml.alfidM / 8) ml.size.toNat, ?_⟩
    unfold MemLoc.wire MemLoc.addressBytes MemLoc.sizeBytes
    simp [ha, hs, bind, Except.bind, pure, Except.pure]

/-- **announced = transmitted, lossless**: an ISO Annex-H decoder reading the format byte's nibbles finds exactly
    `alfidA/8` address bytes and `alfidM/8` size bytes, and recovers the caller's address and size, whatever follows -/
theorem wire_decodes (ml : MemLoc) (w tail : Bytes) (hA : Width ml.alfidA) (hM : Width ml.alfidM) (h : ml.wire = .ok w) :
    Spec.decodeMem (w ++ tail) = some { addrLen := ml.alfidA / 8, sizeLen := ml.alfidM / 8,
                                         address := ml.address.toNat, size := ml.size.toNat, rest := tail }
    ∧ w.length = 1 + ml.alfidA / 8 + ml.alfidM / 8 ∧ (ml.address.toNat : Int) = ml.address ∧ (ml.size.toNat : Int) = ml.size := by
  obtain ⟨a1, a2, s1, s2, hw⟩ := wire_ok h
  obtain ⟨n1, n2, n3, n4⟩ := alfid_nibbles ml.alfidA ml.alfidM hA hM
  refine ⟨?_, by rw [hw]; simp; omega, by omega, by omega⟩
  rw [hw]
  simp only [List.cons_append, List.nil_append, List.append_assoc, Spec.decodeMem, MemLoc.alfidByte, n1, n2]
  have hl : ¬ ((toBE (ml.alfidA / 8) ml.address.toNat ++ (toBE (ml.alfidM / 8) ml.size.toNat ++ tail)).length
      < ml.alfidA / 8 + ml.alfidM / 8) := by simp
  simp only [n3, n4, or_self, if_false, hl]
  have t1 : (toBE (ml.alfidA / 8) ml.address.toNat ++ (toBE (ml.alfidM / 8) ml.size.toNat ++ tail)).take (ml.alfidA / 8)
      = toBE (ml.alfidA / 8) ml.address.toNat := by
    rw [List.take_append_of_le_length (by simp)]
    exact List.take_of_length_le (by simp)
  have t2 : (toBE (ml.alfidA / 8) ml.address.toNat ++ (toBE (ml.alfidM / 8) ml.size.toNat ++ tail)).drop (ml.alfidA / 8)
      = toBE (ml.alfidM / 8) ml.size.toNat ++ tail := by
    rw [List.drop_append_of_le_length (by simp)]
    rw [List.drop_of_length_le (by simp)]; simp
  have t3 : (toBE (ml.alfidM / 8) ml.size.toNat ++ tail).take (ml.alfidM / 8) = toBE (ml.alfidM / 8) ml.size.toNat := by
    rw [List.take_append_of_le_length (by simp)]
    exact List.take_of_length_le (by simp)
  have t4 : (toBE (ml.alfidA / 8) ml.address.toNat ++ (toBE (ml.alfidM / 8) ml.size.toNat ++ tail)).drop (ml.alfidA / 8 + ml.alfidM / 8)
      = tail := by
    rw [← List.drop_drop, t2, List.drop_append_of_le_length (by simp)]
    rw [List.drop_of_length_le (by simp)]; simp
  rw [t1, t2, t3, t4, fromBE_toBE_of_lt a2, fromBE_toBE_of_lt s2]

theorem resolveFmt_auto {v : Int} {k : Nat} (h : autosize v = .ok (8 * k)) : resolveFmt none v = .ok ((8 * k : Nat) : Int) := by
  simp [resolveFmt, h, pure, Except.pure]

theorem width_of_k {k : Nat} (h1 : 1 ≤ k) (h8 : k ≤ 8) : widthOk ((8 * k : Nat) : Int) = true := by
  have : k = 1 ∨ k = 2 ∨ k = 3 ∨ k = 4 ∨ k = 5 ∨ k = 6 ∨ k = 7 ∨ k = 8 := by omega
  rcases this with h | h | h | h | h | h | h | h <;> subst h <;> decide

theorem mkAlfid_of_k {ka ks : Nat} (a1 : 1 ≤ ka) (a2 : ka ≤ 8) (s1 : 1 ≤ ks) (s2 : ks ≤ 8) :
    mkAlfid ((8 * ka : Nat) : Int) ((8 * ks : Nat) : Int) = .ok (8 * ka, 8 * ks) := by
  have ha : ka = 1 ∨ ka = 2 ∨ ka = 3 ∨ ka = 4 ∨ ka = 5 ∨ ka = 6 ∨ ka = 7 ∨ ka = 8 := by omega
  have hs : ks = 1 ∨ ks = 2 ∨ ks = 3 ∨ ks = 4 ∨ ks = 5 ∨ ks = 6 ∨ ks = 7 ∨ ks = 8 := by omega
  rcases ha with h | h | h | h | h | h | h | h <;> rcases hs with g | g | g | g | g | g | g | g <;>
    subst h <;> subst g <;> decide

/-- **whole 64-bit range**: with neither an explicit nor a configured format every address and size from 0 to
    2^64 - 1 is accepted and transmitted (in its smallest width) -/
theorem auto_total (a s : Int) (ha0 : 0 ≤ a) (ha : a < 2 ^ 64) (hs0 : 0 ≤ s) (hs : s < 2 ^ 64) :
    ∃ ml ml' w, MemLoc.new a s none none = .ok ml ∧ ml.applyConfig none none = .ok ml' ∧ ml'.wire = .ok w := by
  obtain ⟨ka, e1, a1, a2, a3, _⟩ := autosize_smallest a ha0 ha
  obtain ⟨ks, e2, s1, s2, s3, _⟩ := autosize_smallest s hs0 hs
  have hmk := mkAlfid_of_k a1 a2 s1 s2
  let ml : MemLoc := { address := a, size := s, af := none, mf := none, alfidA := 8 * ka, alfidM := 8 * ks }
  have hnew : MemLoc.new a s none none = .ok ml := by
    unfold MemLoc.new; rw [resolveFmt_auto e1, resolveFmt_auto e2]; simp only [bind, Except.bind]; rw [hmk]; rfl
  have hset : ∀ (m : MemLoc), m = ml → m.setFormatIfNone none none = .ok ml := by
    intro m hm; subst hm
    unfold MemLoc.setFormatIfNone
    show (do
      let a ← resolveFmt none a
      let m ← resolveFmt none s
      let (x, y) ← mkAlfid a m
      pure { ml with af := none, mf := none, alfidA := x, alfidM := y } : Py MemLoc) = .ok ml
    rw [resolveFmt_auto e1, resolveFmt_auto e2]; simp only [bind, Except.bind]; rw [hmk]; rfl
  have happ : ml.applyConfig none none = .ok ml := by
    simp [MemLoc.applyConfig, hset ml rfl, bind, Except.bind]
  refine ⟨ml, ml, ?_⟩
  obtain ⟨w, hw⟩ := (wire_ok_iff ml).2 ⟨ha0, by simp [ml]; omega, hs0, by simp [ml]; omega⟩
  exact ⟨w, hnew, happ, hw⟩

/-- **the echo is decoded symmetrically**: the server's echo of format byte, address and size in the transmitted
    widths decodes to the caller's numbers and is accepted, for all eight widths of each -/
theorem echo_symmetric (ml : MemLoc) (w tail : Bytes) (h : ml.wire = .ok w) :
    writeMemPost ml (w ++ tail) = .ok { alfid := ml.alfidByte, address := ml.address.toNat, size := ml.size.toNat } := by
  obtain ⟨a1, a2, s1, s2, hw⟩ := wire_ok h
  have ha := (fieldBytes_ok_iff ml.address ml.alfidA _).2 ⟨a1, a2, rfl⟩
  have hs := (fieldBytes_ok_iff ml.size ml.alfidM _).2 ⟨s1, s2, rfl⟩
  have hb : ml.alfidByte < 256 := by
    unfold MemLoc.alfidByte; rw [and_ff]; omega
  unfold writeMemPost writeMemInterpret MemLoc.addressBytes MemLoc.sizeBytes
  rw [ha, hs, hw]
  have hlen : ¬ (([UInt8.ofNat ml.alfidByte] ++ toBE (ml.alfidA / 8) ml.address.toNat ++ toBE (ml.alfidM / 8) ml.size.toNat ++ tail).length
      < 1 + (toBE (ml.alfidA / 8) ml.address.toNat).length + (toBE (ml.alfidM / 8) ml.size.toNat).length) := by simp; omega
  have hi : idx ([UInt8.ofNat ml.alfidByte] ++ toBE (ml.alfidA / 8) ml.address.toNat ++ toBE (ml.alfidM / 8) ml.size.toNat ++ tail) 0
      = .ok (UInt8.ofNat ml.alfidByte) := by simp [idx, pure, Except.pure]
  have sl1 : slice ([UInt8.ofNat ml.alfidByte] ++ toBE (ml.alfidA / 8) ml.address.toNat ++ toBE (ml.alfidM / 8) ml.size.toNat ++ tail) 1
      (1 + (toBE (ml.alfidA / 8) ml.address.toNat).length) = toBE (ml.alfidA / 8) ml.address.toNat := by
    simp only [slice, List.cons_append, List.nil_append, List.append_assoc, toBE_length]
    rw [Nat.add_comm 1, List.take_succ_cons, List.drop_succ_cons, List.drop_zero, List.take_append_of_le_length (by simp)]
    exact List.take_of_length_le (by simp)
  have sl2 : slice ([UInt8.ofNat ml.alfidByte] ++ toBE (ml.alfidA / 8) ml.address.toNat ++ toBE (ml.alfidM / 8) ml.size.toNat ++ tail)
      (1 + (toBE (ml.alfidA / 8) ml.address.toNat).length)
      (1 + (toBE (ml.alfidA / 8) ml.address.toNat).length + (toBE (ml.alfidM / 8) ml.size.toNat).length) = toBE (ml.alfidM / 8) ml.size.toNat := by
    simp only [slice, List.cons_append, List.nil_append, List.append_assoc, toBE_length]
    rw [show 1 + ml.alfidA / 8 + ml.alfidM / 8 = (ml.alfidA / 8 + ml.alfidM / 8) + 1 by omega, List.take_succ_cons,
        Nat.add_comm 1, List.drop_succ_cons, List.take_append, List.drop_append]
    simp
  simp only [bind, Except.bind, pure, Except.pure, hlen, if_false, hi, sl1, sl2, fromBE_toBE_of_lt a2, fromBE_toBE_of_lt s2,
    toNat_ofNat_lt hb]
  have e1 : ((ml.address.toNat : Nat) : Int) = ml.address := by omega
  have e2 : ((ml.size.toNat : Nat) : Int) = ml.size := by omega
  simp [e1, e2]

/-! ### the five request layouts -/

theorem readMem_frame (ml : MemLoc) (w : Bytes) (h : ml.wire = .ok w) :
    (readMemMakeRequest ml >>= fun r => r.getPayload) = .ok (0x23 :: w) := by
  simp [readMemMakeRequest, h, bind, Except.bind, pure, Except.pure, Request.getPayload, fromRequestId, services, packB]

theorem writeMem_frame (ml : MemLoc) (w data : Bytes) (h : ml.wire = .ok w) :
    (writeMemMakeRequest ml data >>= fun r => r.getPayload) = .ok (0x3D :: (w ++ data)) := by
  simp [writeMemMakeRequest, h, bind, Except.bind, pure, Except.pure, Request.getPayload, fromRequestId, services, packB]

theorem download_frame (ml : MemLoc) (w : Bytes) (dfi : Nat) (hd : dfi < 256) (h : ml.wire = .ok w) :
    (requestXferMakeRequest false ml dfi >>= fun r => r.getPayload) = .ok (0x34 :: UInt8.ofNat dfi :: w) := by
  simp [requestXferMakeRequest, h, hd, bind, Except.bind, pure, Except.pure, Request.getPayload, fromRequestId, services, packB]

theorem upload_frame (ml : MemLoc) (w : Bytes) (dfi : Nat) (hd : dfi < 256) (h : ml.wire = .ok w) :
    (requestXferMakeRequest true ml dfi >>= fun r => r.getPayload) = .ok (0x35 :: UInt8.ofNat dfi :: w) := by
  simp [requestXferMakeRequest, h, hd, bind, Except.bind, pure, Except.pure, Request.getPayload, fromRequestId, services, packB]

/-- dynamic DID by memory address: every entry is transmitted in the common widths and decodes back, in order -/
theorem ddd_entries_decode (entries : List MemLoc) (al sl : Nat) (body : Bytes) (hpos : 0 < al + sl)
    (hw : ∀ e ∈ entries, e.alfidA / 8 = al ∧ e.alfidM / 8 = sl) (hb : dddEntriesBytes entries = .ok body) :
    Spec.decodeMemList al sl body entries.length = some (entries.map fun e => (e.address.toNat, e.size.toNat))
    ∧ ∀ e ∈ entries, 0 ≤ e.address ∧ 0 ≤ e.size := by
  induction entries generalizing body with
  | nil =>
    simp [dddEntriesBytes, pure, Except.pure] at hb; subst hb
    simp [Spec.decodeMemList]
  | cons m rest ih =>
    unfold dddEntriesBytes MemLoc.addressBytes MemLoc.sizeBytes at hb
    cases ha : fieldBytes m.address m.alfidA with
    | error e => simp [ha, bind, Except.bind] at hb
    | ok a =>
      cases hs : fieldBytes m.size m.alfidM with
      | error e => simp [ha, hs, bind, Except.bind] at hb
      | ok sb =>
        cases ht : dddEntriesBytes rest with
        | error e => simp [ha, hs, ht, bind, Except.bind] at hb
        | ok tl =>
          simp [ha, hs, ht, bind, Except.bind, pure, Except.pure] at hb
          obtain ⟨a1, a2, a3⟩ := (fieldBytes_ok_iff _ _ _).1 ha
          obtain ⟨s1, s2, s3⟩ := (fieldBytes_ok_iff _ _ _).1 hs
          obtain ⟨w1, w2⟩ := hw m (by simp)
          obtain ⟨ih1, ih2⟩ := ih tl (fun e he => hw e (by simp [he])) ht
          rw [w1] at a2 a3; rw [w2] at s2 s3
          have la : a.length = al := by rw [a3]; simp
          have ls : sb.length = sl := by rw [s3]; simp
          constructor
          · rw [← hb]
            simp only [List.length_cons, Spec.decodeMemList]
            have ne : (a ++ (sb ++ tl)).isEmpty = false := by
              cases a with
              | nil => cases sb with
                | nil => simp at la ls; omega
                | cons _ _ => simp
              | cons _ _ => simp
            have nl : ¬ (a ++ (sb ++ tl)).length < al + sl := by simp; omega
            simp only [ne, nl, if_false, Bool.false_eq_true]
            have d1 : (a ++ (sb ++ tl)).drop (al + sl) = tl := by
              rw [← List.append_assoc, List.drop_append_of_le_length (by simp; omega), List.drop_of_length_le (by simp; omega)]; simp
            have t1 : (a ++ (sb ++ tl)).take al = a := by
              rw [List.take_append_of_le_length (by omega)]; exact List.take_of_length_le (by omega)
            have t2 : ((a ++ (sb ++ tl)).drop al).take sl = sb := by
              rw [List.drop_append_of_le_length (by omega), List.drop_of_length_le (by omega)]
              simp only [List.nil_append]
              rw [List.take_append_of_le_length (by omega)]; exact List.take_of_length_le (by omega)
            rw [d1, ih1, t1, t2, a3, s3, fromBE_toBE_of_lt a2, fromBE_toBE_of_lt s2]; simp
          · intro e he
            simp at he
            rcases he with he | he
            · subst he; exact ⟨a1, s1⟩
            · exact ih2 e he

/-! ### non-vacuity: concrete instances of the hypotheses -/

example : ∃ ml ml' w, MemLoc.new 0x12345 0 none none = .ok ml ∧ ml.applyConfig none none = .ok ml' ∧ ml'.wire = .ok w :=
  auto_total 0x12345 0 (by decide) (by decide) (by decide) (by decide)

example : ∃ ml ml' w, MemLoc.new (2 ^ 64 - 1) (2 ^ 63) none none = .ok ml ∧ ml.applyConfig none none = .ok ml' ∧ ml'.wire = .ok w :=
  auto_total (2 ^ 64 - 1) (2 ^ 63) (by decide) (by decide) (by decide) (by decide)

example : Width 40 ∧ ¬ Width 12 := by unfold Width; omega

end Uds.Props.C14
