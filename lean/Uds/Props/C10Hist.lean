import Uds.Props.C10
/-
  C10 over arbitrary histories: if the timing in force after a history differs from the timing before it, then somewhere in that history there is a
  session change that was accepted (the method returned the response) at a moment when the edition was later than 2006 and server timing was enabled.
  No other operation — refused, negative, timed-out or unexpected session changes, any other service, configuration changes, blocks, stray frames —
  moves the timing.  (Unbounded: induction over the history.)
-/
namespace Uds.Props.C10
open Uds Uds.Model

theorem history_timing (s : HState) (ops : List HOp) (h : (hrun s ops).1.cs.timing ≠ s.cs.timing) :
    ∃ pre n arr resp post, ops = pre ++ .call (.changeSession n) arr :: post ∧
      (callInner (hrun s pre).1.cfg (hrun s pre).1.cs (.changeSession n) arr).inner = .ret (some resp) ∧
      (hrun s pre).1.cfg.std > 2006 ∧ (hrun s pre).1.cfg.useServerTiming = true := by
  induction ops generalizing s with
  | nil => simp [hrun] at h
  | cons op rest ih =>
    simp only [hrun] at h
    by_cases hstepch : (hstep s op).1.cs.timing = s.cs.timing
    · -- the change happens later
      have h' : (hrun (hstep s op).1 rest).1.cs.timing ≠ (hstep s op).1.cs.timing := by rw [hstepch]; exact h
      obtain ⟨pre, n, arr, resp, post, he, hi, h1, h2⟩ := ih (hstep s op).1 h'
      refine ⟨op :: pre, n, arr, resp, post, by rw [he]; rfl, ?_, ?_, ?_⟩ <;> simpa [hrun] using (by first | exact hi | exact h1 | exact h2)
    · obtain ⟨n, arr, resp, he, hi, h1, h2⟩ := history_timing_step s op hstepch
      exact ⟨[], n, arr, resp, rest, by rw [he]; rfl, by simpa [hrun] using hi, by simpa [hrun] using h1, by simpa [hrun] using h2⟩

/-- a history without any session change keeps the timing, whatever else happens in it -/
theorem no_session_change_no_timing_change (s : HState) (ops : List HOp) (h : ∀ op ∈ ops, ∀ n arr, op ≠ .call (.changeSession n) arr) :
    (hrun s ops).1.cs.timing = s.cs.timing := by
  by_cases hc : (hrun s ops).1.cs.timing = s.cs.timing
  · exact hc
  · obtain ⟨pre, n, arr, resp, post, he, _⟩ := history_timing s ops hc
    exact absurd rfl (h (.call (.changeSession n) arr) (by rw [he]; simp) n arr)

theorem hrun_append (s : HState) (a b : List HOp) : (hrun s (a ++ b)).1 = (hrun (hrun s a).1 b).1 := by
  induction a generalizing s with
  | nil => simp [hrun]
  | cons op rest ih => simp only [List.cons_append, hrun]; exact ih _

/-- **the timing in force is the one of the last accepted session change**: split any history at a session change that was accepted under a 2013+
    edition with server timing enabled and is followed by no further session change; whatever the operations before and after it did, the timing in
    force at the end is exactly P2 = a ms, P2* = 10·b ms of that reply (in ticks) -/
theorem timing_is_the_last_accepted_one (s : HState) (pre post : List HOp) (n : Int) (arr : List Frame) (resp : Response)
    (hacc : (callInner (hrun s pre).1.cfg (hrun s pre).1.cs (.changeSession n) arr).inner = .ret (some resp))
    (hstd : 2013 ≤ (hrun s pre).1.cfg.std) (hu : (hrun s pre).1.cfg.useServerTiming = true)
    (hpost : ∀ op ∈ post, ∀ m a, op ≠ .call (.changeSession m) a) :
    (hrun s (pre ++ .call (.changeSession n) arr :: post)).1.cs.timing =
      some (fromBE (slice resp.data 1 3) * (hrun s pre).1.cfg.msNum / (hrun s pre).1.cfg.msDen,
            fromBE (slice resp.data 3 5) * 10 * (hrun s pre).1.cfg.msNum / (hrun s pre).1.cfg.msDen) := by
  rw [hrun_append]
  simp only [hrun]
  rw [no_session_change_no_timing_change _ post hpost]
  simp only [hstep]
  rw [(adopted_values _ _ n arr resp hacc hstd hu).2]

/-! non-vacuity: a timed-out call and a refused session change, an accepted one (P2 = 50 ms, P2* = 5000 ms), then a negative reply and a block -/
example : (hrun { cfg := { send := ⟨some 2000, 100, 300, false⟩ } }
    ([.call (.ecuReset 1) [], .call (.changeSession 3) [⟨1, [0x7F, 0x10, 0x22]⟩]] ++ .call (.changeSession 3) [⟨5, [0x50, 0x03, 0x00, 0x32, 0x01, 0xF4]⟩] ::
     [.call .testerPresent [⟨1, [0x7F, 0x3E, 0x11]⟩], .enterSpr false, .call (.ecuReset 1) [], .exitSpr])).1.cs.timing = some (50, 5000) := by decide +kernel

end Uds.Props.C10
