import Uds.Props.C10
/-
  C10 over arbitrary histories: if the timing in force after a history differs from the timing before it, then somewhere in that history there is a
  session change that was accepted (the method returned the response) at a moment when the edition was later than 2006 and server timing was enabled.
  No other operation — refused, negative, timed-out or unexpected session changes, any other service, configuration changes, blocks, stray frames —
  moves the timing.  (Unbounded: induction over the history.)
-/
namespace Uds.Props.C10
open Uds Uds.Model

theorem history_timing (s : HState) (ops : List HOp) (h : (hrun s ops).1.cs.timing ≠ s.cs.timing) :
    ∃ pre n arr resp post, ops = pre ++ .call (.changeSession n) arr :: post ∧
      (callInner (hrun s pre).1.cfg (hrun s pre).1.cs (.changeSession n) arr).inner = .ret (some resp) ∧
      (hrun s pre).1.cfg.std > 2006 ∧ (hrun s pre).1.cfg.useServerTiming = true := by
  induction ops generalizing s with
  | nil => simp [hrun] at h
  | cons op rest ih =>
    simp only [hrun] at h
    by_cases hstepch : (hstep s op).1.cs.timing = s.cs.timing
    · -- the change happens later
      have h' : (hrun (hstep s op).1 rest).1.cs.timing ≠ (hstep s op).1.cs.timing := by rw [hstepch]; exact h
      obtain ⟨pre, n, arr, resp, post, he, hi, h1, h2⟩ := ih (hstep s op).1 h'
      refine ⟨op :: pre, n, arr, resp, post, by rw [he]; rfl, ?_, ?_, ?_⟩ <;> simpa [hrun] using (by first | exact hi | exact h1 | exact h2)
    · obtain ⟨n, arr, resp, he, hi, h1, h2⟩ := history_timing_step s op hstepch
      exact ⟨[], n, arr, resp, rest, by rw [he]; rfl, by simpa [hrun] using hi, by simpa [hrun] using h1, by simpa [hrun] using h2⟩

/-- a history without any session change keeps the timing, whatever else happens in it -/
theorem no_session_change_no_timing_change (s : HState) (ops : List HOp) (h : ∀ op ∈ ops, ∀ n arr, op ≠ .call (.changeSession n) arr) :
    (hrun s ops).1.cs.timing = s.cs.timing := by
  by_cases hc : (hrun s ops).1.cs.timing = s.cs.timing
  · exact hc
  · obtain ⟨pre, n, arr, resp, post, he, _⟩ := history_timing s ops hc
    exact absurd rfl (h (.call (.changeSession n) arr) (by rw [he]; simp) n arr)

end Uds.Props.C10
