import Uds.Props.C05
import Uds.Props.C10Hist
import Uds.Props.C09Hist
/-
  C05 over arbitrary histories: which P2 applies to the first wait of a call is decided by the history's last accepted session change alone.
-/
namespace Uds.Props.C05
open Uds Uds.Model

/-- **the first window after any history**: split a history at a session change accepted under a 2013+ edition with server timing enabled and
    followed by no other session change; let the history end outside any suppress block (decided by its block operations alone).  Then the next
    call — any entry point — flushes, sends its frame and waits first for exactly `min(server P2, request timeout)` with the server P2 = a ms of
    that reply, whatever else the history contained (failed calls, blocks entered and left, stray frames, switch and edition changes after it). -/
theorem first_window_after_history (s : HState) (pre post : List HOp) (n : Int) (arr : List Frame) (resp : Response)
    (e : Entry) (req : Request) (svc : Service) (p : Bytes) (arr2 : List Frame)
    (hacc : (callInner (hrun s pre).1.cfg (hrun s pre).1.cs (.changeSession n) arr).inner = .ret (some resp))
    (hstd : 2013 ≤ (hrun s pre).1.cfg.std) (hu : (hrun s pre).1.cfg.useServerTiming = true)
    (hpost : ∀ op ∈ post, ∀ m a, op ≠ .call (.changeSession m) a)
    (hflags : ((pre ++ .call (.changeSession n) arr :: post).foldl C09.blockFold (s.cs.spr, s.cs.override)).1.enabled = false)
    (hm : e.makeRequest (hrun s (pre ++ .call (.changeSession n) arr :: post)).1.cfg.std = .ok req)
    (hs : req.service = some svc) (hreq : req.spr = false) (hp : req.getPayload none = .ok p) :
    ∃ rest, (hstep (hrun s (pre ++ .call (.changeSession n) arr :: post)).1 (.call e arr2)).2.log =
      [.flush, .send (match (hrun s (pre ++ .call (.changeSession n) arr :: post)).1.cs.override with | some m => m.apply p | none => p),
       .wait 0 (Spec.firstSingle (hrun s (pre ++ .call (.changeSession n) arr :: post)).1.cfg.send.requestTimeout
                  (fromBE (slice resp.data 1 3) * (hrun s pre).1.cfg.msNum / (hrun s pre).1.cfg.msDen) none)] ++ rest := by
  have ht := C10.timing_is_the_last_accepted_one s pre post n arr resp hacc hstd hu hpost
  have hfl := congrArg Prod.fst (C09.hrun_flags s (pre ++ .call (.changeSession n) arr :: post))
  simp only at hfl
  generalize (hrun s (pre ++ .call (.changeSession n) arr :: post)).1 = fin at *
  have hnospr : fin.cs.spr.enabled = false := by rw [hfl]; exact hflags
  obtain ⟨rest, hr⟩ := first_window fin.cfg.send fin.cs req svc none arr2 hs hnospr hreq p hp
  have hp2 : p2Eff fin.cfg.send fin.cs = fromBE (slice resp.data 1 3) * (hrun s pre).1.cfg.msNum / (hrun s pre).1.cfg.msDen := by
    unfold p2Eff; rw [ht]
  rw [hp2] at hr
  refine ⟨rest, ?_⟩
  simp only [hstep]
  unfold callInner
  rw [hm]
  simp only []
  cases ho : (sendRequest fin.cfg.send fin.cs req none arr2).outcome with
  | none => simp only []; exact hr
  | raised a b c => simp only []; exact hr
  | resp r =>
    simp only []
    cases hq : e.post fin.cfg.std r.data with
    | error err => simp only []; exact hr
    | ok t => simp only []; exact hr

/-! non-vacuity: adopted P2 = 50 ms beats the configured 100; after a failed call and a closed block the next call waits 50 first -/
example : (hstep (hrun { cfg := { send := ⟨some 2000, 100, 300, false⟩ } }
    ([.call (.ecuReset 1) []] ++ .call (.changeSession 3) [⟨5, [0x50, 0x03, 0x00, 0x32, 0x01, 0xF4]⟩] ::
     [.enterSpr false, .call (.ecuReset 1) [], .exitSpr, .call .testerPresent [⟨1, [0x7F, 0x3E, 0x11]⟩]])).1 (.call (.ecuReset 1) [])).2.log =
    [.flush, .send [0x11, 0x01], .wait 0 50] := by decide +kernel

end Uds.Props.C05
