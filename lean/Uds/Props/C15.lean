import Uds.Model.History
/-
  C15 — one call, one flushed-then-sent frame; stale frames are never taken as answers.
-/
namespace Uds.Props.C15
open Uds Uds.Model

def Op.isSend : Op → Bool | .send _ => true | _ => false
def Op.isWaitOrCb : Op → Bool | .wait _ _ => true | .callback => true | _ => false

/-- the wait loop never sends or flushes: its log holds waits and callbacks only -/
theorem loop_log_waits_only (dl : Option Nat) (ps : Nat) (cb : Bool) (rid : Nat) (spr : Bool) (now single : Nat)
    (star : Bool) (arr : List Frame) :
    ∀ op ∈ (waitLoop dl ps cb rid spr now single star arr).log, Op.isWaitOrCb op = true := by
  induction arr generalizing now single star with
  | nil => intro op h; rw [waitLoop] at h; simp at h; subst h; rfl
  | cons f rest ih =>
    intro op h
    rw [waitLoop] at h
    simp only [] at h
    split at h
    · cases hcl : classifyResp rid (Response.fromPayload f.payload) <;> simp only [hcl] at h
      case pending =>
        simp only [List.mem_append, List.mem_singleton] at h
        rcases h with (h | h) | h
        · subst h; rfl
        · split at h
          · simp at h; subst h; rfl
          · simp at h
        · exact ih _ _ _ op h
      all_goals (simp at h; subst h; rfl)
    · simp at h; subst h; rfl

/-- **log_shape / single_send** — whatever the outcome (timeout, negative, invalid, unexpected, success,
    suppressed), a `send_request` flushes, then sends exactly one frame, then only waits: no retransmission.
    (When the payload cannot be produced nothing is sent at all.) -/
theorem log_shape (cfg : SendCfg) (st : ClientState) (req : Request) (timeout : Option Nat) (arr : List Frame) :
    let r := sendRequest cfg st req timeout arr
    r.log = [] ∨ r.log = [.flush] ∨
    ∃ p rest, r.log = .flush :: .send p :: rest ∧ ∀ op ∈ rest, Op.isWaitOrCb op = true := by
  unfold sendRequest
  cases req.service with
  | none => left; rfl
  | some svc =>
    simp only []
    split
    · right; left; rfl
    · right; right
      split
      · exact ⟨_, [], rfl, by simp⟩
      · exact ⟨_, _, rfl, loop_log_waits_only _ _ _ _ _ _ _ _ _⟩

theorem single_send (cfg : SendCfg) (st : ClientState) (req : Request) (timeout : Option Nat) (arr : List Frame) :
    ((sendRequest cfg st req timeout arr).log.filter Op.isSend).length ≤ 1 := by
  rcases log_shape cfg st req timeout arr with h | h | ⟨p, rest, h, hr⟩
  · simp [h]
  · simp [h, Op.isSend]
  · simp only [h, List.filter_cons, Op.isSend]
    have : rest.filter Op.isSend = [] := by
      rw [List.filter_eq_nil_iff]
      intro op hop
      have := hr op hop
      cases op <;> simp_all [Op.isSend, Op.isWaitOrCb]
    simp [this]

/-- a whole client call (simple services) sends at most one frame; the seed/key composite at most two -/
theorem call_single_send (cfg : CallCfg) (st : ClientState) (e : Entry) (arr : List Frame) :
    ((callInner cfg st e arr).log.filter Op.isSend).length ≤ 1 := by
  unfold callInner
  cases e.makeRequest cfg.std with
  | error err => simp
  | ok req =>
    simp only []
    have := single_send cfg.send st req none arr
    cases (sendRequest cfg.send st req none arr).outcome with
    | none => simpa using this
    | raised a b c => simpa using this
    | resp r => simp only []; split <;> simpa using this

theorem unlock_at_most_two_sends (cfg : CallCfg) (st : ClientState) (algo : Bytes → Int → Bytes) (level : Int) (sp : Bytes)
    (a1 a2 : List Frame) :
    ((unlockInner cfg st true algo level sp a1 a2).log.filter Op.isSend).length ≤ 2 := by
  unfold unlockInner
  simp only [Bool.not_true, Bool.false_eq_true, if_false]
  have h1 := call_single_send cfg st (.requestSeed level sp) a1
  cases hi : (callInner cfg st (.requestSeed level sp) a1).inner with
  | exc e r => simp only []; omega
  | ret r =>
    cases r with
    | none => simp only []; omega
    | some resp =>
      simp only []
      split
      · simp only []; omega
      · simp only [List.filter_append, List.length_append]
        have h2 := call_single_send cfg (callInner cfg st (.requestSeed level sp) a1).st
          (.sendKey level (algo (resp.data.drop 1) level)) a2
        omega

/-- **stale_ignored** — frames that were already in the receive queue when the call started have no
    influence on what the call does, and the queue is empty once a request has been sent -/
theorem stale_ignored (s : HState) (q : List Bytes) (e : Entry) (arr : List Frame) :
    (hstep { s with rxq := q } (.call e arr)).2 = (hstep { s with rxq := [] } (.call e arr)).2 ∧
    ((callInner s.cfg s.cs e arr).log ≠ [] → (hstep { s with rxq := q } (.call e arr)).1.rxq = []) := by
  constructor
  · simp [hstep]
  · intro h
    simp [hstep, h]

/-- **history_free** — what a call does is a function of its arguments, the configuration, the adopted
    session timing and the context-manager flags: two clients that agree on those behave identically,
    whatever their earlier calls were -/
theorem history_free (s1 s2 : HState) (h1 : s1.cfg = s2.cfg) (h2 : s1.cs = s2.cs) (h3 : s1.sw = s2.sw)
    (e : Entry) (arr : List Frame) :
    (hstep s1 (.call e arr)).2 = (hstep s2 (.call e arr)).2 := by
  simp [hstep, h1, h2, h3]

/-- a failing call leaves the client state untouched (so the next call starts from the same state) -/
theorem failed_call_inert (cfg : CallCfg) (st : ClientState) (e : Entry) (arr : List Frame)
    (h : ∀ r, (callInner cfg st e arr).inner ≠ .ret (some r)) : (callInner cfg st e arr).st = st := by
  unfold callInner at h ⊢
  cases hm : e.makeRequest cfg.std with
  | error err => rfl
  | ok req =>
    simp only [hm] at h ⊢
    cases ho : (sendRequest cfg.send st req none arr).outcome with
    | none => rfl
    | raised a b c => rfl
    | resp r =>
      simp only [ho] at h ⊢
      cases hp : e.post cfg.std r.data with
      | error err => rfl
      | ok t =>
        simp only [hp] at h
        exact absurd rfl (h r)

/-! ### non-vacuity -/
example : (sendRequest ⟨some 50, 10, 20, false⟩ {} (mkReq "TesterPresent" (some 0) none) none
    [⟨5, [0x7F, 0x3E, 0x78]⟩, ⟨100, [0x7E, 0x00]⟩]).log = [.flush, .send [0x3E, 0x00], .wait 0 10, .wait 5 20] := by decide

end Uds.Props.C15
