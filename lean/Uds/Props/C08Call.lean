import Uds.Props.C08
import Uds.Props.C04
/-
  C08 at call level: the hypothesis `WfInner` of `C08.delivery_only` discharged for everything a client method can hand to its decorator.
  What `send_request` raises or returns is well-formed for every request, state and arrival schedule (`sendRequest_wf`); the method's own
  interpretation never raises a negative-response exception (`Safe`, C04); hence the verdict a caller reads off a call and the content of the
  response object it is given do not depend on the three `exception_on_*` switches - for the 13 simple entry points (`callInner`) and for
  every method built on the generic body (`callWithI` = `callWith` keeping the response object).
-/
namespace Uds.Props.C08
open Uds Uds.Model Uds.Props.C04

theorem classify_negative {rid : Nat} {r : Response} {c : Nat} (h : classifyResp rid r = .negative c) :
    r.valid = true ∧ r.code = some c := by
  unfold classifyResp at h
  cases hv : r.valid <;> simp only [hv, Bool.not_false, Bool.not_true] at h
  · simp at h
  · refine ⟨rfl, ?_⟩
    simp only [Bool.false_eq_true, if_false] at h
    split at h
    · next s c' hs hc =>
      split at h
      · simp at h
      · split at h
        · split at h
          · simp at h
          · simp only [FrameClass.negative.injEq] at h; rw [hc, h]
        · simp at h
    · simp at h

theorem classify_positive {rid : Nat} {r : Response} (h : classifyResp rid r = .positive) :
    r.valid = true ∧ r.positive = true := by
  unfold classifyResp at h
  cases hv : r.valid <;> simp only [hv, Bool.not_false, Bool.not_true] at h
  · simp at h
  · refine ⟨rfl, ?_⟩
    simp only [Bool.false_eq_true, if_false] at h
    split at h
    · split at h
      · simp at h
      · cases hp : r.positive
        · simp only [hp, Bool.not_false, if_true] at h; split at h <;> simp at h
        · rfl
    · simp at h

/-- what `send_request` guarantees about what it hands on -/
def WfOutcome : SendOutcome → Prop
  | .raised (.negative c) (some r) _ => r.valid = true ∧ r.code = some c
  | .raised (.negative _) none _ => False          -- a negative-response exception always carries its response
  | .resp r => r.valid = true ∧ r.positive = true
  | _ => True

theorem waitLoop_wf (dl : Option Nat) (ps : Nat) (cb : Bool) (rid : Nat) (spr : Bool) (arr : List Frame) :
    ∀ (now single : Nat) (star : Bool), WfOutcome (waitLoop dl ps cb rid spr now single star arr).outcome := by
  induction arr with
  | nil => intro now single star; unfold waitLoop; simp only []; cases spr <;> simp [WfOutcome]
  | cons f rest ih =>
    intro now single star
    unfold waitLoop
    simp only []
    split
    · split
      · simp [WfOutcome]
      · simp [WfOutcome]
      · simp [WfOutcome]
      · next c hc => exact classify_negative hc
      · next hc => cases spr
                   · exact classify_positive hc
                   · simp [WfOutcome]
      · exact ih _ _ _
    · cases spr <;> simp [WfOutcome]


theorem packB_err {n : Nat} {e : PyErr} (h : packB n = .error e) : e = .structErr := by
  unfold packB at h; split at h
  · simp [pure, Except.pure] at h
  · simp [throw, throwThe, MonadExceptOf.throw] at h; exact h.symm

/-- building the payload fails only with ValueError / struct.error -/
theorem getPayload_err (r : Request) (ovr : Option Bool) (e : PyErr) (h : r.getPayload ovr = .error e) : e = .valueErr ∨ e = .structErr := by
  unfold Request.getPayload at h
  split at h
  · simp [throw, throwThe, MonadExceptOf.throw] at h; exact Or.inl h.symm
  · split at h
    · split at h
      · simp [throw, throwThe, MonadExceptOf.throw] at h; exact Or.inl h.symm
      · rw [bind_err] at h
        rcases h with h | ⟨a, _, h⟩
        · exact Or.inr (packB_err h)
        · rw [bind_err] at h
          rcases h with h | ⟨b, _, h⟩
          · exact Or.inr (packB_err h)
          · simp [pure, Except.pure] at h
    · split at h
      · simp [throw, throwThe, MonadExceptOf.throw] at h; exact Or.inl h.symm
      · rw [bind_err] at h
        rcases h with h | ⟨a, _, h⟩
        · exact Or.inr (packB_err h)
        · simp [pure, Except.pure] at h

theorem sendRequest_wfOutcome (cfg : SendCfg) (st : ClientState) (req : Request) (timeout : Option Nat) (arr : List Frame) :
    WfOutcome (sendRequest cfg st req timeout arr).outcome := by
  unfold sendRequest
  split
  · simp [WfOutcome]
  · simp only []
    split
    · next e he =>
      have : e = .valueErr ∨ e = .structErr := by
        split at he
        · exact getPayload_err _ _ _ he
        · exact getPayload_err _ _ _ he
      rcases this with h | h <;> subst h <;> simp [WfOutcome]
    · split
      · simp [WfOutcome]
      · exact waitLoop_wf _ _ _ _ _ _ _ _ _

theorem raised_negative_has_response (cfg : SendCfg) (st : ClientState) (req : Request) (arr : List Frame) (c : Nat) (k : Option TimeoutKind) :
    (sendRequest cfg st req none arr).outcome ≠ .raised (.negative c) none k := by
  intro h
  have hw := sendRequest_wfOutcome cfg st req none arr
  rw [h] at hw
  exact hw

/-- **`send_request` hands on only well-formed outcomes**: a NegativeResponseException carries a valid response with that very code, a returned
    response is valid and positive — for every request, every client state and every arrival schedule -/
theorem sendRequest_wf (cfg : SendCfg) (st : ClientState) (req : Request) (timeout : Option Nat) (arr : List Frame) :
    WfInner (sendInner (sendRequest cfg st req timeout arr)) := by
  have h := sendRequest_wfOutcome cfg st req timeout arr
  unfold sendInner
  cases ho : (sendRequest cfg st req timeout arr).outcome with
  | none => simp [WfInner]
  | resp r => rw [ho] at h; exact h
  | raised e r k =>
    rw [ho] at h
    cases e <;> cases r <;> simp_all [WfInner, WfOutcome]


/-- an interpretation failure delivered with the response it was found in is well-formed (it is never a negative-response exception) -/
theorem wf_of_ofReply {e : PyErr} (r : Option Response) (h : e.ofReply = true) : WfInner (.exc e r) := by
  cases e <;> cases r <;> simp_all [WfInner, PyErr.ofReply]

/-- **the 13 simple client methods hand only well-formed outcomes to their decorator** — whatever arrives -/
theorem callInner_wf (cfg : CallCfg) (st : ClientState) (e : Entry) (arr : List Frame) (hstd : cfg.std > 2006 → cfg.std ≥ 2013)
    (hlevel : ∀ l x, (e = .requestSeed l x ∨ e = .sendKey l x) → 1 ≤ l ∧ l ≤ 0x7E) :
    (∃ err, e.makeRequest cfg.std = .error err ∧ (callInner cfg st e arr).log = []) ∨ WfInner (callInner cfg st e arr).inner := by
  unfold callInner
  cases hm : e.makeRequest cfg.std with
  | error err => exact Or.inl ⟨err, rfl, rfl⟩
  | ok req =>
    refine Or.inr ?_
    simp only []
    have hw := sendRequest_wfOutcome cfg.send st req none arr
    cases ho : (sendRequest cfg.send st req none arr).outcome with
    | none => simp [WfInner]
    | raised err r k =>
      rw [ho] at hw
      simp only []
      cases err <;> cases r <;> simp_all [WfInner, WfOutcome]
    | resp resp =>
      rw [ho] at hw
      simp only []
      cases hp : e.post cfg.std resp.data with
      | error err => simp only []; exact wf_of_ofReply _ (post_safe cfg.std e resp.data hstd hlevel err hp)
      | ok t => simp only []; exact hw

/-- **the switches change delivery, never the outcome — for whole calls of the simple entry points**: whatever frames arrive and whenever,
    the verdict read off what the decorated method hands back, and the service / code / data of the response object it carries, are the same
    under all 8 settings of `exception_on_negative_response` / `_invalid_response` / `_unexpected_response` -/
theorem call_switch_independent (sw sw' : Switches) (cfg : CallCfg) (st : ClientState) (e : Entry) (arr : List Frame)
    (hstd : cfg.std > 2006 → cfg.std ≥ 2013) (hlevel : ∀ l x, (e = .requestSeed l x ∨ e = .sendKey l x) → 1 ≤ l ∧ l ≤ 0x7E)
    (hreq : ∃ req, e.makeRequest cfg.std = .ok req) :
    (deliver sw (callInner cfg st e arr).inner).verdict = (deliver sw' (callInner cfg st e arr).inner).verdict ∧
    ((deliver sw (callInner cfg st e arr).inner).response.map (fun r => (r.service, r.code, r.data))) =
      ((deliver sw' (callInner cfg st e arr).inner).response.map (fun r => (r.service, r.code, r.data))) := by
  rcases callInner_wf cfg st e arr hstd hlevel with ⟨err, herr, _⟩ | hw
  · obtain ⟨req, hreq⟩ := hreq; rw [hreq] at herr; cases herr
  · exact delivery_only sw sw' _ hw

/-- refused arguments are raised as they are under every switch setting (nothing was sent) -/
theorem refused_call_propagates (sw : Switches) (cfg : CallCfg) (st : ClientState) (e : Entry) (arr : List Frame) (err : PyErr)
    (h : e.makeRequest cfg.std = .error err) (hne : ∀ c, err ≠ .negative c) (hni : err ≠ .invalid) (hnu : err ≠ .unexpected) :
    deliver sw (callInner cfg st e arr).inner = .exc err none false ∧ (callInner cfg st e arr).log = [] := by
  unfold callInner
  rw [h]
  exact ⟨other_errors_propagate sw err none hne hni hnu, rfl⟩

/-! ### every other method: the generic body, keeping the response object for the decorator -/

/-- `callWithI` is `callWith` with the response object kept: same return / raise, same exception -/
theorem callWithI_erases {α : Type} (cfg : SendCfg) (st : ClientState) (req : Request) (post : Bytes → Py α) (arr : List Frame) :
    (callWith cfg st req post arr = .ret none ↔ callWithI cfg st req post arr = .ret none) ∧
    (∀ e, callWith cfg st req post arr = .exc e ↔ ∃ r, callWithI cfg st req post arr = .exc e r) ∧
    (∀ v, callWith cfg st req post arr = .ret (some v) → ∃ r, callWithI cfg st req post arr = .ret (some r) ∧ post r.data = .ok v) := by
  unfold callWith callWithI
  cases ho : (sendRequest cfg st req none arr).outcome with
  | none => simp
  | raised e r k => simp
  | resp r =>
    simp only []
    cases hp : post r.data with
    | ok v => simp [hp]
    | error e => simp

theorem callWithI_wf {α : Type} (cfg : SendCfg) (st : ClientState) (req : Request) (post : Bytes → Py α) (arr : List Frame)
    (hpost : ∀ d, Safe (post d)) : WfInner (callWithI cfg st req post arr) := by
  unfold callWithI
  have hw := sendRequest_wfOutcome cfg st req none arr
  cases ho : (sendRequest cfg st req none arr).outcome with
  | none => simp [WfInner]
  | raised err r k =>
    rw [ho] at hw
    simp only []
    cases err <;> cases r <;> simp_all [WfInner, WfOutcome]
  | resp resp =>
    rw [ho] at hw
    simp only []
    cases hp : post resp.data with
    | error err => simp only []; exact wf_of_ofReply _ (hpost resp.data err hp)
    | ok t => simp only []; exact hw

/-- **any client method** whose interpretation + checks can only fail in the documented ways: verdict and response content independent of the
    switches, for every request, client state and arrival schedule -/
theorem callWith_switch_independent {α : Type} (sw sw' : Switches) (cfg : SendCfg) (st : ClientState) (req : Request) (post : Bytes → Py α)
    (arr : List Frame) (hpost : ∀ d, Safe (post d)) :
    (deliver sw (callWithI cfg st req post arr)).verdict = (deliver sw' (callWithI cfg st req post arr)).verdict ∧
    ((deliver sw (callWithI cfg st req post arr)).response.map (fun r => (r.service, r.code, r.data))) =
      ((deliver sw' (callWithI cfg st req post arr)).response.map (fun r => (r.service, r.code, r.data))) :=
  delivery_only sw sw' _ (callWithI_wf cfg st req post arr hpost)

/-- a negative response ends every such call with the verdict `negative c`, raised or returned according to the switch -/
theorem callWith_negative_delivery {α : Type} (sw : Switches) (cfg : SendCfg) (st : ClientState) (req : Request) (post : Bytes → Py α)
    (arr : List Frame) (hpost : ∀ d, Safe (post d)) (c : Nat) (r : Option Response) (h : callWithI cfg st req post arr = .exc (.negative c) r) :
    (deliver sw (callWithI cfg st req post arr)).verdict = .negative c := by
  have hw := callWithI_wf cfg st req post arr hpost
  rw [h] at hw ⊢
  cases r with
  | none =>
    -- send_request never raises a negative-response exception without its response
    exfalso
    unfold callWithI at h
    cases ho : (sendRequest cfg st req none arr).outcome with
    | none => rw [ho] at h; simp at h
    | raised e r' k =>
      rw [ho] at h; simp only [Inner.exc.injEq] at h
      obtain ⟨he, hr⟩ := h; subst he; subst hr
      exact absurd ho (raised_negative_has_response cfg st req arr c k)
    | resp r' =>
      rw [ho] at h; simp only [] at h
      cases hp : post r'.data with
      | ok v => rw [hp] at h; simp at h
      | error e =>
        rw [hp] at h; simp at h
        obtain ⟨he, hc⟩ := h; subst he; simp [PyErr.carriesResponse] at hc
  | some r => exact (verdict_is_the_failure sw r).1 c hw


/-! ### the seed/key composite -/

/-- the same without the case split: a refusal by the builder is raised without a response, which is well-formed as it is -/
theorem callInner_wf' (cfg : CallCfg) (st : ClientState) (e : Entry) (arr : List Frame) (hstd : cfg.std > 2006 → cfg.std ≥ 2013)
    (hlevel : ∀ l x, (e = .requestSeed l x ∨ e = .sendKey l x) → 1 ≤ l ∧ l ≤ 0x7E) : WfInner (callInner cfg st e arr).inner := by
  rcases callInner_wf cfg st e arr hstd hlevel with ⟨err, herr, _⟩ | hw
  · unfold callInner; rw [herr]; cases err <;> simp [WfInner]
  · exact hw

/-- **the seed/key composite hands only well-formed outcomes to its decorator**: both inner calls are made undecorated, so what it raises is
    what one of them raised -/
theorem unlockInner_wf (cfg : CallCfg) (st : ClientState) (hasAlgo : Bool) (algo : Bytes → Int → Bytes) (L : Int) (sp : Bytes) (arr1 arr2 : List Frame)
    (hstd : cfg.std > 2006 → cfg.std ≥ 2013) (hL : 1 ≤ L ∧ L ≤ 0x7E) : WfInner (unlockInner cfg st hasAlgo algo L sp arr1 arr2).inner := by
  unfold unlockInner
  cases hasAlgo with
  | false => simp [WfInner]
  | true =>
    simp only [Bool.not_true, Bool.false_eq_true, if_false]
    have h1 := callInner_wf' cfg st (.requestSeed L sp) arr1 hstd (by
      intro l x h; rcases h with h | h
      · cases h; exact hL
      · cases h)
    cases hi : (callInner cfg st (.requestSeed L sp) arr1).inner with
    | exc e r => rw [hi] at h1; simp only []; exact h1
    | ret r =>
      cases r with
      | none => simp [WfInner]
      | some resp =>
        rw [hi] at h1
        simp only []
        split
        · exact h1
        · simp only []
          exact callInner_wf' cfg _ (.sendKey L _) arr2 hstd (by
            intro l x h; rcases h with h | h
            · cases h
            · cases h; exact hL)

/-- **unlock_security_access: the switches change delivery, never the outcome** -/
theorem unlock_switch_independent (sw sw' : Switches) (cfg : CallCfg) (st : ClientState) (hasAlgo : Bool) (algo : Bytes → Int → Bytes) (L : Int) (sp : Bytes)
    (arr1 arr2 : List Frame) (hstd : cfg.std > 2006 → cfg.std ≥ 2013) (hL : 1 ≤ L ∧ L ≤ 0x7E) :
    (deliver sw (unlockInner cfg st hasAlgo algo L sp arr1 arr2).inner).verdict = (deliver sw' (unlockInner cfg st hasAlgo algo L sp arr1 arr2).inner).verdict :=
  (delivery_only sw sw' _ (unlockInner_wf cfg st hasAlgo algo L sp arr1 arr2 hstd hL)).1

/-! ### the families: for every request whatsoever (also one the builder would not produce) and every reply schedule -/

/-- what `callWith_switch_independent` concludes, as a predicate on the decorated call -/
def SwitchIndependent (i : Inner) : Prop :=
  ∀ sw sw' : Switches, (deliver sw i).verdict = (deliver sw' i).verdict ∧
    ((deliver sw i).response.map (fun r => (r.service, r.code, r.data))) = ((deliver sw' i).response.map (fun r => (r.service, r.code, r.data)))

theorem switchIndependent_of_safe {α : Type} (cfg : SendCfg) (st : ClientState) (req : Request) (post : Bytes → Py α) (arr : List Frame)
    (hpost : ∀ d, Safe (post d)) : SwitchIndependent (callWithI cfg st req post arr) :=
  fun sw sw' => callWith_switch_independent sw sw' cfg st req post arr hpost

theorem rdbi_switch_independent (cfg : SendCfg) (st : ClientState) (c : DidCfg) (tol : Bool) (dids : List Nat) (req : Request) (arr : List Frame) :
    SwitchIndependent (callWithI cfg st req (rdbiClient c tol dids) arr) :=
  switchIndependent_of_safe cfg st req _ arr (fun d => rdbiClient_safe c tol _ d)

theorem wdbi_switch_independent (cfg : SendCfg) (st : ClientState) (did : Nat) (req : Request) (arr : List Frame) :
    SwitchIndependent (callWithI cfg st req (wdbiClient did) arr) :=
  switchIndependent_of_safe cfg st req _ arr (fun d => wdbiClient_safe _ d)

theorem io_switch_independent (cfg : SendCfg) (st : ClientState) (c : IoCfg) (tol : Bool) (did : Nat) (cp : Option Nat) (req : Request) (arr : List Frame)
    (hv : ioCfgValid c) : SwitchIndependent (callWithI cfg st req (ioClient c did cp tol) arr) :=
  switchIndependent_of_safe cfg st req _ arr (fun d => ioClient_safe c _ _ tol d hv)

theorem rft_switch_independent (cfg : SendCfg) (st : ClientState) (tol : Bool) (moop : Nat) (dfi : Option Nat) (req : Request) (arr : List Frame) :
    SwitchIndependent (callWithI cfg st req (rftClient moop dfi tol) arr) :=
  switchIndependent_of_safe cfg st req _ arr (fun d => rftClient_safe _ _ tol d)

theorem auth_switch_independent (cfg : SendCfg) (st : ClientState) (task : Nat) (req : Request) (arr : List Frame) :
    SwitchIndependent (callWithI cfg st req (authClient task) arr) :=
  switchIndependent_of_safe cfg st req _ arr (fun d => authClient_safe _ d)

theorem dtc_switch_independent (cfg : SendCfg) (st : ClientState) (c : DtcCfg) (q : DtcReqCtx) (req : Request) (arr : List Frame)
    (hv : DtcCfgValid c) (hq : ctxOk q) (hsf : checkSubfunctionValid q.sf c.std = .ok ()) :
    SwitchIndependent (callWithI cfg st req (dtcClient c q) arr) :=
  switchIndependent_of_safe cfg st req _ arr (fun d => dtcClient_safe c q d hv hsf hq)

theorem ddd_switch_independent (cfg : SendCfg) (st : ClientState) (sf : Nat) (did : Option Nat) (strict : Bool) (req : Request) (arr : List Frame) :
    SwitchIndependent (callWithI cfg st req (dddClient sf did strict) arr) :=
  switchIndependent_of_safe cfg st req _ arr (fun d => dddClient_safe _ _ strict d)

theorem readMem_switch_independent (cfg : SendCfg) (st : ClientState) (size : Nat) (tol : Bool) (req : Request) (arr : List Frame) :
    SwitchIndependent (callWithI cfg st req (readMemClient size tol) arr) :=
  switchIndependent_of_safe cfg st req _ arr (fun d => readMemClient_safe _ tol d)

theorem xfer_switch_independent (cfg : SendCfg) (st : ClientState) (req : Request) (arr : List Frame) :
    SwitchIndependent (callWithI cfg st req xferInterpret arr) :=
  switchIndependent_of_safe cfg st req _ arr xfer_safe

/-! non-vacuity: a negative reply after a pending one, delivered under two settings; an interpretation failure (`invalid`) likewise -/
example : (deliver ⟨true, true, true⟩ (callInner { send := ⟨some 2000, 100, 300, false⟩ } {} (.ecuReset 1) [⟨5, [0x7F, 0x11, 0x78]⟩, ⟨50, [0x7F, 0x11, 0x22]⟩]).inner).verdict = .negative 0x22 ∧
    (deliver ⟨false, false, false⟩ (callInner { send := ⟨some 2000, 100, 300, false⟩ } {} (.ecuReset 1) [⟨5, [0x7F, 0x11, 0x78]⟩, ⟨50, [0x7F, 0x11, 0x22]⟩]).inner).verdict = .negative 0x22 := by
  decide
example : (deliver ⟨true, false, true⟩ (callInner { send := ⟨some 2000, 100, 300, false⟩ } {} (.routineControl 0x1234 1 none) [⟨5, [0x71, 0x01]⟩]).inner).verdict = .invalid ∧
    (deliver ⟨true, true, true⟩ (callInner { send := ⟨some 2000, 100, 300, false⟩ } {} (.routineControl 0x1234 1 none) [⟨5, [0x71, 0x01]⟩]).inner).verdict = .invalid := by
  decide

end Uds.Props.C08
