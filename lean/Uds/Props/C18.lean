import Uds.Model.Editions
import Uds.Model.Entry
import Uds.Spec.Editions
/-
  C18 — features of a later ISO-14229 edition are refused under an earlier edition.
-/
namespace Uds.Props.C18
open Uds Uds.Model

/-- the ReadDTCInformation subfunction gate is exactly the standard's: every byte 1..0xFF under every
    edition (and out-of-range values are refused) -/
theorem dtc_subfn_gate : ∀ v ∈ Spec.editions, ∀ sf : Fin 258,
    (checkSubfunctionValid (Int.ofNat sf.val - 1) v = .ok ()) = (Spec.dtcSubfnAllowed (sf.val - 1) v ∧ 1 ≤ sf.val) := by
  decide +kernel

/-- a 2020-only subfunction under 2006/2013 is refused with the documented not-implemented error -/
theorem dtc_subfn_refusal : ∀ v ∈ [2006, 2013], ∀ sf ∈ Spec.dtcSubfn2020,
    checkSubfunctionValid (Int.ofNat sf) v = .error .notImpl := by decide +kernel

/-- memory selection on ClearDiagnosticInformation: refused before 2020, accepted (one extra byte) from 2020 -/
theorem clear_memsel_gate (v : Nat) (g : Int) (m : Int) (hg : 0 ≤ g ∧ g ≤ 0xFFFFFF) (hm : 0 ≤ m ∧ m ≤ 0xFF) :
    (v < 2020 → clearDtcMakeRequest v g (some m) = .error .notImpl) ∧
    (2020 ≤ v → ∃ r, clearDtcMakeRequest v g (some m) = .ok r ∧ (r.data.getD []).length = 4) := by
  have h1 : (decide (g < 0) || decide (g > 0xFFFFFF)) = false := by simp; omega
  have h2 : (decide (m < 0) || decide (m > 0xFF)) = false := by simp; omega
  constructor
  · intro hv
    simp [clearDtcMakeRequest, validateInt, h1, hv, bind, Except.bind, pure, Except.pure, throw, throwThe, MonadExceptOf.throw]
  · intro hv
    have : ¬ v < 2020 := by omega
    refine ⟨mkReq "ClearDiagnosticInformation" none (some (packDtc g.toNat ++ [UInt8.ofNat m.toNat])), ?_, ?_⟩
    · simp only [clearDtcMakeRequest, validateInt, h1, h2, this, bind, Except.bind, pure, Except.pure, if_false, Bool.false_eq_true]
    · simp [mkReq, packDtc]

/-- node identification: demanded exactly for control types 4 and 5 from 2013, refused otherwise
    (every control type 0..0x7F, every edition) -/
theorem node_id_rule : ∀ v ∈ Spec.editions, ∀ ct : Fin 0x80,
    ((commControlMakeRequest v (Int.ofNat ct.val) 0x01 none).toOption.isSome = !Spec.nodeIdRequired ct.val v) ∧
    ((commControlMakeRequest v (Int.ofNat ct.val) 0x01 (some 5)).toOption.isSome = Spec.nodeIdRequired ct.val v) := by
  decide +kernel

/-- the four timing bytes of a session-change reply are demanded from 2013 (any reply length) -/
theorem session_reply_length (v : Nat) (d : Bytes) :
    (dscInterpret v d).toOption.isSome = Spec.sessionReplyLenOk d.length v := by
  unfold dscInterpret echo1 Spec.sessionReplyLenOk
  by_cases h0 : d.length < 1
  · have : d.length = 0 := by omega
    by_cases hv : v ≥ 2013 <;> simp [h0, hv, this, bind, Except.bind, throw, throwThe, MonadExceptOf.throw, Except.toOption]
  · have hl : 0 < d.length := by omega
    simp only [h0, if_false, idx_ok hl, bind, Except.bind, pure, Except.pure]
    by_cases hv : v ≥ 2013
    · simp only [hv, if_true]
      by_cases h5 : d.length = 5
      · simp [h5, Except.toOption]
      · simp [h5, Except.toOption, throw, throwThe, MonadExceptOf.throw]
    · simp [hv, Except.toOption]; omega

/-- **refused_before_send** — whenever building the request fails (any of the refusals above, or any
    other bad argument) the connection is not touched: no flush, no frame -/
theorem refused_before_send (cfg : CallCfg) (st : ClientState) (e : Entry) (arr : List Frame) (err : PyErr)
    (h : e.makeRequest cfg.std = .error err) :
    (callInner cfg st e arr).log = [] ∧ (callInner cfg st e arr).inner = .exc err none ∧ (callInner cfg st e arr).st = st := by
  simp [callInner, h]

/-- only 2006, 2013 and 2020 are accepted at construction -/
theorem init_only_valid (v : Nat) : (initEdition v).isSome = true ↔ v ∈ Spec.editions := by
  unfold initEdition validEditions Spec.editions
  by_cases h : [2006, 2013, 2020].contains v = true <;> simp_all

/-- a configuration change to an invalid edition raises -/
theorem set_invalid_raises (c v : Nat) : (setEdition c v).2 = true ↔ v ∉ Spec.editions := by
  unfold setEdition validEditions Spec.editions
  by_cases h : [2006, 2013, 2020].contains v = true <;> simp_all

/-- the edition in force after any sequence of configuration changes on a client that was constructed
    successfully -/
def editionAfter (c : Nat) (changes : List Nat) : Nat := changes.foldl (fun cur v => (setEdition cur v).1) c

/-- **edition_invariant** — whatever sequence of configuration changes (valid or refused) is applied to a
    successfully constructed client, the edition in force is always 2006, 2013 or 2020 -/
theorem edition_invariant (c : Nat) (hc : c ∈ Spec.editions) (changes : List Nat) :
    editionAfter c changes ∈ Spec.editions := by
  induction changes generalizing c with
  | nil => simpa [editionAfter]
  | cons v vs ih =>
    simp only [editionAfter, List.foldl_cons]
    apply ih
    unfold setEdition validEditions
    by_cases h : [2006, 2013, 2020].contains v = true
    · simp only [h, if_true]
      simpa [Spec.editions] using h
    · simp only [h]
      exact hc

/-- a refused change leaves the edition untouched -/
theorem refused_change_inert (c v : Nat) (h : v ∉ Spec.editions) : setEdition c v = (c, true) := by
  have hc : ([2006, 2013, 2020].contains v) = false := by
    simp only [Spec.editions] at h
    simpa using h
  show (if [2006, 2013, 2020].contains v = true then (v, false) else (c, true)) = (c, true)
  rw [if_neg (by rw [hc]; simp)]

example : checkSubfunctionValid 0x42 2013 = .error .notImpl ∧ checkSubfunctionValid 0x42 2020 = .ok () := by decide

/-! ### the whole configuration dictionary: `set_configs` with several keys is all-or-nothing -/

/-- **a refused change of several keys is not applied at all**: whatever the other keys of the call are and wherever the bad edition stands among them -/
theorem refused_configs_inert (c : Config) (d : List (String × Int)) (h : (setConfigs c d).2 = true) : (setConfigs c d).1 = c := by
  by_cases hok : (c.update d).editionOk = true
  · simp [setConfigs, hok] at h
  · simp [setConfigs, hok]

/-- an accepted change applies every key of the call -/
theorem accepted_configs_applied (c : Config) (d : List (String × Int)) (h : (setConfigs c d).2 = false) :
    (setConfigs c d).1 = c.update d ∧ ((setConfigs c d).1).editionOk = true := by
  by_cases hok : (c.update d).editionOk = true
  · simp [setConfigs, hok]
  · simp [setConfigs, hok] at h

/-- the configuration in force always carries one of the three editions, after any sequence of (multi-key) changes -/
theorem config_invariant (c : Config) (hc : c.editionOk = true) (changes : List (List (String × Int))) :
    (changes.foldl (fun cfg d => (setConfigs cfg d).1) c).editionOk = true := by
  induction changes generalizing c with
  | nil => exact hc
  | cons d rest ih =>
    apply ih
    by_cases hok : (c.update d).editionOk = true
    · simp [setConfigs, hok]
    · simp [setConfigs, hok, hc]

/-- a call is refused exactly when the edition it would leave in force is not one of the three -/
theorem configs_refused_iff (c : Config) (d : List (String × Int)) : (setConfigs c d).2 = true ↔ (c.update d).editionOk = false := by
  by_cases hok : (c.update d).editionOk = true <;> simp [setConfigs, hok]

/-- the last binding of `standard_version` in the call decides (a call that does not mention the edition keeps the current one) -/
theorem update_get_last (c : Config) (pre post : List (String × Int)) (k : String) (v : Int) (hp : ∀ e ∈ post, e.1 ≠ k) :
    (c.update (pre ++ [(k, v)] ++ post)).get k = some v := by
  unfold Config.update Config.get
  rw [List.reverse_append, List.reverse_append, List.append_assoc, List.append_assoc]
  have hpost : (post.reverse).find? (fun e => e.1 == k) = none := by
    rw [List.find?_eq_none]
    intro e he
    have := hp e (List.mem_reverse.1 he)
    simpa using this
  rw [List.find?_append, hpost]
  simp

example : setConfigs [("standard_version", 2013), ("p2_timeout", 1)] [("p2_timeout", 3), ("standard_version", 2012)] =
    ([("standard_version", 2013), ("p2_timeout", 1)], true) := by decide

end Uds.Props.C18
