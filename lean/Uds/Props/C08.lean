import Uds.Model.Client
/-
  C08 — exception_on_* switches change how an outcome is delivered, never the outcome.
-/
namespace Uds.Props.C08
open Uds Uds.Model

/-- what `send_request` and the method bodies guarantee about what they raise / return: a negative
    response exception carries a valid response with that code; a returned response is valid and positive -/
def WfInner : Inner → Prop
  | .exc (.negative c) (some r) => r.valid = true ∧ r.code = some c
  | .ret (some r) => r.valid = true ∧ r.positive = true
  | _ => True

/-- the classification a caller reads off is the same under all 8 switch combinations, and so is the
    response object's payload-derived content (service, code, data) -/
theorem delivery_only (sw sw' : Switches) (i : Inner) (hw : WfInner i) :
    (deliver sw i).verdict = (deliver sw' i).verdict ∧
    ((deliver sw i).response.map (fun r => (r.service, r.code, r.data))) =
      ((deliver sw' i).response.map (fun r => (r.service, r.code, r.data))) := by
  cases i with
  | ret r => simp [deliver]
  | exc e r =>
    cases r with
    | none => cases e <;> simp [deliver]
    | some r =>
      cases e <;> simp [deliver]
      case negative c =>
        obtain ⟨hv, hc⟩ := hw
        cases sw.neg <;> cases sw'.neg <;> simp [Outer.verdict, Outer.response, hv, hc]
      case invalid =>
        cases sw.inv <;> cases sw'.inv <;> simp [Outer.verdict, Outer.response]
      case unexpected =>
        cases sw.unexp <;> cases sw'.unexp <;> simp [Outer.verdict, Outer.response]

/-- the verdict is the one of the underlying exception: negative with that code, invalid, unexpected;
    a normal return reads as success -/
theorem verdict_is_the_failure (sw : Switches) (r : Response) :
    (∀ c, WfInner (.exc (.negative c) (some r)) → (deliver sw (.exc (.negative c) (some r))).verdict = .negative c) ∧
    (deliver sw (.exc .invalid (some r))).verdict = .invalid ∧
    (deliver sw (.exc .unexpected (some r))).verdict = .unexpected ∧
    (WfInner (.ret (some r)) → (deliver sw (.ret (some r))).verdict = .ok) := by
  refine ⟨?_, ?_, ?_, ?_⟩
  · intro c hw
    obtain ⟨hv, hc⟩ := hw
    cases h : sw.neg <;> simp [deliver, h, Outer.verdict, hc, hv]
  · cases h : sw.inv <;> simp [deliver, h, Outer.verdict]
  · cases h : sw.unexp <;> simp [deliver, h, Outer.verdict]
  · intro hw
    obtain ⟨hv, hp⟩ := hw
    simp [deliver, Outer.verdict, hv, hp]

/-- with a switch off, the returned object never looks successful: the matching flag is set -/
theorem off_never_looks_ok (sw : Switches) (r : Response) (c : Nat) :
    (sw.neg = false → ∃ r', deliver sw (.exc (.negative c) (some r)) = .ret (some r') false ∧ r'.positive = false) ∧
    (sw.inv = false → ∃ r', deliver sw (.exc .invalid (some r)) = .ret (some r') false ∧ r'.valid = false) ∧
    (sw.unexp = false → deliver sw (.exc .unexpected (some r)) = .ret (some r) true) := by
  refine ⟨?_, ?_, ?_⟩ <;> intro h <;> simp [deliver, h]

/-- with a switch on, the exception is raised carrying the response -/
theorem on_raises (sw : Switches) (r : Response) (c : Nat) :
    (sw.neg = true → ∃ r', deliver sw (.exc (.negative c) (some r)) = .exc (.negative c) (some r') false ∧ r'.data = r.data) ∧
    (sw.inv = true → ∃ r', deliver sw (.exc .invalid (some r)) = .exc .invalid (some r') false ∧ r'.data = r.data) ∧
    (sw.unexp = true → deliver sw (.exc .unexpected (some r)) = .exc .unexpected (some r) true) := by
  refine ⟨?_, ?_, ?_⟩ <;> intro h <;> simp [deliver, h]

/-- any other exception (timeout, configuration error, a bad argument, …) is never swallowed -/
theorem other_errors_propagate (sw : Switches) (e : PyErr) (r : Option Response)
    (h : ∀ c, e ≠ .negative c) (h2 : e ≠ .invalid) (h3 : e ≠ .unexpected) :
    deliver sw (.exc e r) = .exc e r false := by
  cases e <;> simp_all [deliver]

/-- **composite helpers** — a helper that calls another entry point *undecorated* delivers the callee's
    failure exactly as the callee alone would: same verdict under every switch setting -/
theorem composite_ok (sw sw' : Switches) (post : Option Response → Inner) (e : PyErr) (r : Option Response)
    (hw : WfInner (.exc e r)) :
    (compositeUndecorated sw post (.exc e r)).verdict = (deliver sw' (.exc e r)).verdict := by
  unfold compositeUndecorated
  exact (delivery_only sw sw' (.exc e r) hw).1

/-- …whereas a helper that goes through the callee's decorator and then uses the result can turn a
    negative response into a different error once the switch is off (this is why `Tie.CallGraph` demands
    `usesResult → undecorated` of every edge of client.py) -/
theorem composite_decorated_unsound :
    ∃ (post : Option Response → Inner) (r : Response),
      (compositeDecorated ⟨true, true, true⟩ post (.exc (.negative 0x31) (some r))).verdict = .negative 0x31 ∧
      (compositeDecorated ⟨false, true, true⟩ post (.exc (.negative 0x31) (some r))).verdict = .other .attrErr := by
  refine ⟨fun _ => .exc .attrErr none, { valid := true, code := some 0x31 }, ?_, ?_⟩ <;> decide

example : WfInner (.exc (.negative 0x22) (some { valid := true, code := some 0x22 })) ∧
    (deliver ⟨false, false, false⟩ (.exc (.negative 0x22) (some { valid := true, code := some 0x22 }))).verdict = .negative 0x22 := by
  refine ⟨⟨rfl, rfl⟩, ?_⟩; decide

end Uds.Props.C08
