import Uds.Props.C09
/-
  C09 / C15 over arbitrary histories: the suppress and override flags of the client after ANY sequence of operations — calls with any outcome, seed/key
  composites, configuration changes, stray frames, blocks entered and left in any order — are a function of the block operations alone.  Nothing a call
  does (success, negative reply, timeout, refusal) can switch suppression on or off, and after the last exit the flags are what they were before the
  first entry.  (Unbounded: induction over the history.)
-/
namespace Uds.Props.C09
open Uds Uds.Model

/-- the flags as the block operations alone would leave them -/
def blockFold (f : Spr × Option Modifier) : HOp → Spr × Option Modifier
  | .enterSpr w => (⟨true, w⟩, f.2)
  | .enterSprBare => (⟨true, f.1.waitNrc⟩, f.2)
  | .exitSpr => (⟨false, false⟩, f.2)
  | .enterOvr m => (f.1, some m)
  | .exitOvr => (f.1, none)
  | _ => f

theorem callInner_override (cfg : CallCfg) (st : ClientState) (e : Entry) (arr : List Frame) :
    (callInner cfg st e arr).st.override = st.override := by
  unfold callInner
  cases hm : e.makeRequest cfg.std with
  | error err => simp
  | ok req =>
    simp only
    cases ho : (sendRequest cfg.send st req none arr).outcome with
    | none => simp
    | raised a b c => simp
    | resp r =>
      simp only
      cases hp : e.post cfg.std r.data with
      | error err => simp
      | ok t =>
        cases t with
        | none => simp
        | some t => cases hu : cfg.useServerTiming <;> simp [hu]

theorem hstep_flags (s : HState) (op : HOp) :
    ((hstep s op).1.cs.spr, (hstep s op).1.cs.override) = blockFold (s.cs.spr, s.cs.override) op := by
  cases op <;> simp [hstep, blockFold]
  case call e arr => exact ⟨callInner_spr _ _ _ _, callInner_override _ _ _ _⟩

/-- **flags_are_a_function_of_the_blocks** — for every history, whatever the calls in it did -/
theorem hrun_flags (s : HState) (ops : List HOp) :
    ((hrun s ops).1.cs.spr, (hrun s ops).1.cs.override) = ops.foldl blockFold (s.cs.spr, s.cs.override) := by
  induction ops generalizing s with
  | nil => simp [hrun]
  | cons op rest ih =>
    simp only [hrun, List.foldl_cons]
    rw [ih (hstep s op).1, hstep_flags]

/-- a history without block operations leaves the flags alone: no call, failed or not, and no configuration change can turn suppression on -/
theorem no_blocks_no_flags (s : HState) (ops : List HOp)
    (h : ∀ op ∈ ops, ∀ f, blockFold f op = f) :
    (hrun s ops).1.cs.spr = s.cs.spr ∧ (hrun s ops).1.cs.override = s.cs.override := by
  have hf : ∀ (l : List HOp) (f : Spr × Option Modifier), (∀ op ∈ l, ∀ g, blockFold g op = g) → l.foldl blockFold f = f := by
    intro l
    induction l with
    | nil => intro f _; rfl
    | cons o r ih => intro f hl; simp only [List.foldl_cons]; rw [hl o (by simp) f]; exact ih f (fun op ho => hl op (by simp [ho]))
  have := hrun_flags s ops
  rw [hf ops _ h] at this
  exact ⟨congrArg Prod.fst this, congrArg Prod.snd this⟩

/-- **never_outlives_its_block** — whatever happened inside (any operations, any outcomes, nested override blocks, exceptions), once the suppress
    block is left every later history without a new entry runs with suppression off -/
theorem never_outlives_its_block (s : HState) (inside after : List HOp) (w : Bool)
    (ha : ∀ op ∈ after, (∀ v, op ≠ .enterSpr v) ∧ op ≠ .enterSprBare) :
    (hrun s (.enterSpr w :: inside ++ .exitSpr :: after)).1.cs.spr = ⟨false, false⟩ := by
  have h := hrun_flags s (.enterSpr w :: inside ++ .exitSpr :: after)
  have key : ∀ (l : List HOp) (f : Spr × Option Modifier), f.1 = ⟨false, false⟩ →
      (∀ op ∈ l, (∀ v, op ≠ .enterSpr v) ∧ op ≠ .enterSprBare) → (l.foldl blockFold f).1 = ⟨false, false⟩ := by
    intro l
    induction l with
    | nil => intro f hf _; exact hf
    | cons o r ih =>
      intro f hf hl
      simp only [List.foldl_cons]
      apply ih
      · obtain ⟨h1, h2⟩ := hl o (by simp)
        cases o <;> simp [blockFold, hf]
        case enterSpr v => exact absurd rfl (h1 v)
        case enterSprBare => exact absurd rfl h2
      · intro op ho; exact hl op (by simp [ho])
  have h1 := congrArg Prod.fst h
  simp only [List.cons_append, List.foldl_cons, List.foldl_append] at h1
  simp only [List.cons_append]
  rw [h1]
  exact key after _ (by simp [blockFold]) ha

/-! ### non-vacuity: a block left after a timed-out call and a refused one, then an ordinary call -/
example : (hrun { cfg := { send := ⟨some 100, 50, 500, false⟩ } }
    [.enterSpr true, .call (.ecuReset 1) [], .call (.ecuReset 0x80) [], .exitSpr, .call .testerPresent [⟨1, [0x7E, 0x00]⟩]]).1.cs.spr = ⟨false, false⟩ := by
  decide +kernel

end Uds.Props.C09
