import Uds.Model.Msg
import Uds.Lemmas.Bytes
/-
  C17 — Request/Response objects round-trip via payloads; service ids are unambiguous.
  Property theorems only (helpers are `private`).
-/
namespace Uds.Props.C17
open Uds Uds.Model

/-! ### identifiers -/

theorem sid_unique : services.Pairwise (fun a b => a.sid ≠ b.sid) := by decide

theorem rid_unique : services.Pairwise (fun a b => a.sid + 0x40 ≠ b.sid + 0x40) := by decide

/-- every request id finds exactly its own class -/
theorem request_id_unambiguous : ∀ s ∈ services, fromRequestId s.sid = some s := by decide

/-- every response id (request id + 0x40) finds exactly its own class, fits a byte and is not the
    negative-response marker -/
theorem response_id_unambiguous :
    ∀ s ∈ services, fromResponseId (s.sid + 0x40) = some s ∧ s.sid + 0x40 < 256 ∧ s.sid + 0x40 ≠ 0x7F := by
  decide

/-- an id resolves to a class only if that class has this id -/
theorem from_request_id_sound (id : Nat) (s : Service) (h : fromRequestId id = some s) :
    s ∈ services ∧ s.sid = id := by
  unfold fromRequestId at h
  have := List.find?_some h
  exact ⟨List.mem_of_find?_eq_some h, by simpa using this⟩

theorem from_response_id_sound (id : Nat) (s : Service) (h : fromResponseId id = some s) :
    s ∈ services ∧ s.sid + 0x40 = id := by
  unfold fromResponseId at h
  have := List.find?_some h
  exact ⟨List.mem_of_find?_eq_some h, by simpa using this⟩

/-! ### requests -/

private theorem bits_set : ∀ sf : Fin 128, (setBit7 sf.val) < 256 ∧ (setBit7 sf.val &&& 0x7F) = sf.val ∧
    (setBit7 sf.val &&& 0x80 > 0) := by decide
private theorem bits_clear : ∀ sf : Fin 128, (sf.val &&& 0x7F) = sf.val ∧ ¬ (sf.val &&& 0x80 > 0) := by decide

/-- Build → payload → parse gives back service, subfunction (when the service has one), suppression
    flag and data (absent and empty data are the same message). -/
theorem request_roundtrip (s : Service) (hs : s ∈ services) (sf : Nat) (hsf : sf < 128) (spr : Bool)
    (hspr : spr = true → s.useSubfn = true) (data : Option Bytes) :
    ∃ r p, Request.mk' s (some sf) spr data = .ok r ∧ r.getPayload = .ok p ∧
      (Request.fromPayload p).service = some s ∧
      (Request.fromPayload p).subfunction = (if s.useSubfn then some sf else none) ∧
      (Request.fromPayload p).spr = spr ∧
      (Request.fromPayload p).data.getD [] = data.getD [] := by
  have hid := request_id_unambiguous s hs
  have hlt : s.sid < 256 := by have := (response_id_unambiguous s hs).2.1; omega
  have hset := bits_set ⟨sf, hsf⟩
  have hclr := bits_clear ⟨sf, hsf⟩
  simp only at hset hclr
  cases hu : s.useSubfn
  · -- no subfunction: spr must be false
    have hspr' : spr = false := by
      cases spr <;> simp_all
    subst hspr'
    refine ⟨⟨some s, some sf, false, data⟩, (UInt8.ofNat s.sid) :: data.getD [], ?_, ?_, ?_⟩
    · simp [Request.mk', hu, pure, Except.pure]
    · simp [Request.getPayload, hu, packB, hlt, pure, Except.pure, bind, Except.bind]
    · simp only [Request.fromPayload, toNat_ofNat_lt hlt, hid, hu]
      cases hd : data.getD [] <;> simp
  · cases spr
    · refine ⟨⟨some s, some sf, false, data⟩, (UInt8.ofNat s.sid) :: UInt8.ofNat sf :: data.getD [], ?_, ?_, ?_⟩
      · simp [Request.mk', pure, Except.pure]
      · have : sf < 256 := by omega
        simp [Request.getPayload, hu, packB, hlt, this, pure, Except.pure, bind, Except.bind]
      · have h256 : sf < 256 := by omega
        simp only [Request.fromPayload, toNat_ofNat_lt hlt, hid, hu]
        cases hd : data.getD [] <;> simp [toNat_ofNat_lt h256, hclr.1] <;> omega
    · refine ⟨⟨some s, some sf, true, data⟩, (UInt8.ofNat s.sid) :: UInt8.ofNat (setBit7 sf) :: data.getD [], ?_, ?_, ?_⟩
      · simp [Request.mk', hu, pure, Except.pure]
      · simp [Request.getPayload, hu, packB, hlt, hset.1, pure, Except.pure, bind, Except.bind]
      · simp only [Request.fromPayload, toNat_ofNat_lt hlt, hid, hu]
        cases hd : data.getD [] <;> simp [toNat_ofNat_lt hset.1, hset.2.1] <;> omega

/-- Re-encoding a parsed request reproduces the payload (for every payload whose first byte is a
    known request id; other payloads parse to the empty request, which has no payload). -/
theorem request_reencode (p : Bytes) (s : Service) (h : (Request.fromPayload p).service = some s)
    (hlen : s.useSubfn = true → 2 ≤ p.length) :
    (Request.fromPayload p).getPayload = .ok p := by
  match p with
  | [] => simp [Request.fromPayload] at h
  | b0 :: rest =>
    simp only [Request.fromPayload] at h ⊢
    cases hf : fromRequestId b0.toNat with
    | none => simp [hf] at h
    | some t =>
      simp only [hf] at h ⊢
      have ht : t = s := by simpa using h
      subst ht
      have hsid := (from_request_id_sound _ _ hf).2
      have hb0 : UInt8.ofNat t.sid = b0 := by rw [hsid]; simp
      have hlt : t.sid < 256 := by rw [hsid]; exact b0.toNat_lt
      cases hu : t.useSubfn
      · cases rest with
        | nil => simp [Request.getPayload, hu, packB, hlt, hb0, pure, Except.pure, bind, Except.bind]
        | cons b1 tl => simp [Request.getPayload, hu, packB, hlt, hb0, pure, Except.pure, bind, Except.bind]
      · have h2 := hlen hu
        match rest, h2 with
        | b1 :: tl, _ =>
          have hb1 : b1.toNat < 256 := b1.toNat_lt
          have hsf : (if 0 < b1.toNat &&& 128 then setBit7 (b1.toNat &&& 127) else b1.toNat &&& 127) = b1.toNat := by
            have : ∀ x : Fin 256, (if 0 < x.val &&& 128 then setBit7 (x.val &&& 127) else x.val &&& 127) = x.val := by decide +kernel
            exact this ⟨b1.toNat, hb1⟩
          cases tl with
          | nil => simp [Request.getPayload, hu, packB, hlt, hb0, hsf, hb1, pure, Except.pure, bind, Except.bind]
          | cons b2 tl' => simp [Request.getPayload, hu, packB, hlt, hb0, hsf, hb1, pure, Except.pure, bind, Except.bind]

/-! ### responses -/

/-- what the message format admits as data: a positive response of a service whose response carries
    data has at least one byte; a service without response data has none -/
def Admissible (s : Service) (c : Nat) (data : Bytes) : Prop :=
  (s.hasRespData = true → c = 0 → data ≠ []) ∧ (s.hasRespData = false → data = [])

/-- Build → payload → parse gives back service, code, polarity and data, for every service, every code
    0x00–0xFF and every admissible data string. -/
theorem response_roundtrip (s : Service) (hs : s ∈ services) (c : Nat) (hc : c ≤ 0xFF) (data : Bytes)
    (hadm : Admissible s c data) :
    ∃ r p, Response.mk' s c data = .ok r ∧ r.getPayload = .ok p ∧
      (Response.fromPayload p).valid = true ∧
      (Response.fromPayload p).service = some s ∧
      (Response.fromPayload p).code = some c ∧
      (Response.fromPayload p).positive = r.positive ∧ r.positive = (c == 0) ∧
      (Response.fromPayload p).codeName = r.codeName ∧
      (Response.fromPayload p).data = data := by
  have hreq := request_id_unambiguous s hs
  obtain ⟨hresp, hlt, hne⟩ := response_id_unambiguous s hs
  have hlt' : s.sid < 256 := by omega
  by_cases h0 : c = 0
  · subst h0
    have hz : isNegative 0 = false := by decide
    refine ⟨⟨some s, true, some 0, rcName 0, true, "", data⟩, (UInt8.ofNat (s.sid + 0x40)) :: (if s.hasRespData then data else []), ?_, ?_, ?_⟩
    · simp [Response.mk', hz, pure, Except.pure]
    · cases hh : s.hasRespData <;> simp [Response.getPayload, packB, hlt, hh, pure, Except.pure, bind, Except.bind]
    · have hb : (UInt8.ofNat (s.sid + 0x40) != 0x7F) = true := by
        simp only [bne_iff_ne, ne_eq]
        intro hcon
        have := congrArg UInt8.toNat hcon
        rw [toNat_ofNat_lt hlt] at this
        simp at this; omega
      simp only [Response.fromPayload, hb, if_true, toNat_ofNat_lt hlt, hresp]
      cases hh : s.hasRespData
      · have := hadm.2 hh; subst this; simp
      · have hne := hadm.1 hh rfl
        cases data with
        | nil => exact absurd rfl hne
        | cons d tl =>
          have : ¬ (tl.length + 1 + 1 < 2) := by omega
          simp [this]
  · have hn : isNegative c = true := by simp [isNegative, h0]
    have hc' : c < 256 := by omega
    have hpos : (c == 0) = false := by simp [h0]
    refine ⟨⟨some s, false, some c, rcName c, true, "", data⟩, [0x7F, UInt8.ofNat s.sid, UInt8.ofNat c] ++ (if s.hasRespData then data else []), ?_, ?_, ?_⟩
    · have : ¬ c > 255 := by omega
      simp [Response.mk', hn, this, pure, Except.pure]
    · cases hh : s.hasRespData <;> simp [Response.getPayload, packB, hlt', hc', hh, pure, Except.pure, bind, Except.bind]
    · simp only [Response.fromPayload, List.cons_append, List.nil_append, bne_self_eq_false, Bool.false_eq_true, if_false,
        List.getElem?_cons_succ, List.getElem?_cons_zero, toNat_ofNat_lt hlt', hreq, toNat_ofNat_lt hc', hpos]
      cases hh : s.hasRespData
      · have := hadm.2 hh; subst this; simp
      · cases data <;> simp

/-- Parsing is total and flags every payload valid, or invalid with a reason. -/
theorem parse_total (p : Bytes) :
    (Response.fromPayload p).valid = true ∨
    ((Response.fromPayload p).valid = false ∧ (Response.fromPayload p).reason ≠ "") := by
  unfold Response.fromPayload
  repeat' split
  all_goals simp

/-- a valid parsed response always has a service and a code; 0x7F frames are never positive -/
theorem parse_valid_fields (p : Bytes) (h : (Response.fromPayload p).valid = true) :
    (Response.fromPayload p).service.isSome = true ∧ (Response.fromPayload p).code.isSome = true ∧
    ((Response.fromPayload p).positive = true ↔ p.head? ≠ some 0x7F) := by
  unfold Response.fromPayload at h ⊢
  repeat' split
  all_goals simp_all

/-- Re-encoding a parsed valid payload reproduces it (for payloads the message format admits: a
    service without response data carries no bytes after its id). -/
theorem response_reencode (p : Bytes) (h : (Response.fromPayload p).valid = true)
    (hfmt : ∀ s, (Response.fromPayload p).service = some s → s.hasRespData = false →
              (Response.fromPayload p).data = []) :
    (Response.fromPayload p).getPayload = .ok p := by
  match p with
  | [] => simp [Response.fromPayload] at h
  | b0 :: rest =>
    by_cases hb : b0 = 0x7F
    · subst hb
      simp only [Response.fromPayload, bne_self_eq_false, Bool.false_eq_true, if_false] at h hfmt ⊢
      match rest with
      | [] => simp at h
      | b1 :: rest1 =>
        simp only [List.getElem?_cons_succ, List.getElem?_cons_zero] at h hfmt ⊢
        cases hf : fromRequestId b1.toNat with
        | none => simp [hf] at h
        | some s =>
          simp only [hf] at h hfmt ⊢
          have hsid := (from_request_id_sound _ _ hf).2
          have hb1 : UInt8.ofNat s.sid = b1 := by rw [hsid]; simp
          have hlt : s.sid < 256 := by rw [hsid]; exact b1.toNat_lt
          match rest1 with
          | [] => simp at h
          | b2 :: rest2 =>
            have hb2 := b2.toNat_lt
            simp only [List.getElem?_cons_succ, List.getElem?_cons_zero] at h hfmt ⊢
            have hd := hfmt s rfl
            cases hh : s.hasRespData
            · have := hd hh
              cases rest2 with
              | nil => simp [Response.getPayload, packB, hlt, hb1, hb2, hh, pure, Except.pure, bind, Except.bind]
              | cons x xs => simp at this
            · cases rest2 <;> simp [Response.getPayload, packB, hlt, hb1, hb2, hh, pure, Except.pure, bind, Except.bind]
    · have hb' : (b0 != 0x7F) = true := by simp [hb]
      simp only [Response.fromPayload, hb', if_true] at h hfmt ⊢
      cases hf : fromResponseId b0.toNat with
      | none => simp [hf] at h
      | some s =>
        simp only [hf] at h hfmt ⊢
        have hsid := (from_response_id_sound _ _ hf).2
        have hb0 : UInt8.ofNat (s.sid + 0x40) = b0 := by rw [hsid]; simp
        have hlt : s.sid + 0x40 < 256 := by rw [hsid]; exact b0.toNat_lt
        cases hh : s.hasRespData
        · simp only [hh, Bool.and_false, Bool.false_eq_true, if_false] at h hfmt ⊢
          have := hfmt s rfl hh
          cases rest with
          | nil => simp [Response.getPayload, packB, hlt, hb0, hh, pure, Except.pure, bind, Except.bind]
          | cons x xs => simp at this
        · cases rest with
          | nil => simp [hh] at h
          | cons x xs =>
            have : ¬ (xs.length + 1 + 1 < 2) := by omega
            simp [Response.getPayload, packB, hlt, hb0, hh, this, pure, Except.pure, bind, Except.bind]

/-! ### non-vacuity and the known deviation -/

example : Admissible services[1]! 0x95 [1, 2] ∧ Admissible services[19]! 0 [] := by
  refine ⟨⟨?_, ?_⟩, ⟨?_, ?_⟩⟩ <;> decide

end Uds.Props.C17
