import Uds.Props.C15
import Uds.Props.C09Hist
import Uds.Props.C10Hist
/-
  C15 over arbitrary histories: what a call does — the frames it sends, every wait, its outcome — is the same after ANY earlier sequence of calls
  (of any service, with any outcome: success, negative reply, timeout, refusal), seed/key composites and stray frames, as on a client that has done
  nothing yet, provided no session change was among them (adopted session timing is the one thing the property lets earlier calls leave behind).
  Composition of `C09.hrun_flags` (flags), `C10.history_timing` (timing) and `history_free`.  (Unbounded: induction over the history.)
-/
namespace Uds.Props.C15
open Uds Uds.Model

/-- calls other than session changes, seed/key composites, frames arriving between calls -/
def Plain : HOp → Prop
  | .call e _ => ∀ n, e ≠ .changeSession n
  | .unlock _ _ _ _ => True
  | .stray _ => True
  | _ => False

theorem plain_step_keeps (s : HState) (op : HOp) (hp : Plain op) : (hstep s op).1.cfg = s.cfg ∧ (hstep s op).1.sw = s.sw := by
  cases op <;> simp [Plain] at hp <;> simp [hstep]

theorem plain_run_keeps (s : HState) (ops : List HOp) (hp : ∀ op ∈ ops, Plain op) : (hrun s ops).1.cfg = s.cfg ∧ (hrun s ops).1.sw = s.sw := by
  induction ops generalizing s with
  | nil => simp [hrun]
  | cons op rest ih =>
    simp only [hrun]
    obtain ⟨a, b⟩ := plain_step_keeps s op (hp op (by simp))
    obtain ⟨c, d⟩ := ih (hstep s op).1 (fun o ho => hp o (by simp [ho]))
    exact ⟨c.trans a, d.trans b⟩

/-- **earlier_calls_do_not_matter** -/
theorem earlier_calls_do_not_matter (s : HState) (earlier : List HOp) (hp : ∀ op ∈ earlier, Plain op) (e : Entry) (arr : List Frame) :
    (hstep (hrun s earlier).1 (.call e arr)).2 = (hstep s (.call e arr)).2 := by
  obtain ⟨hcfg, hsw⟩ := plain_run_keeps s earlier hp
  have hflags := C09.no_blocks_no_flags s earlier (by
    intro op ho f
    have := hp op ho
    cases op <;> simp [Plain] at this <;> rfl)
  have htim := C10.no_session_change_no_timing_change s earlier (by
    intro op ho n a heq
    have := hp op ho
    subst heq
    exact absurd rfl (this n))
  have hcs : (hrun s earlier).1.cs = s.cs := by
    cases h1 : (hrun s earlier).1.cs with
    | mk t sp ov =>
      cases h2 : s.cs with
      | mk t' sp' ov' =>
        rw [h1, h2] at hflags htim
        simp at hflags htim
        rw [htim, hflags.1, hflags.2]
  exact history_free _ _ hcfg hcs hsw e arr

/-! ### non-vacuity: a timed-out call, a refused one, a negative reply, a stray frame - then the call behaves as on a fresh client -/
example : (hstep (hrun { cfg := { send := ⟨some 100, 50, 500, false⟩ } }
      [.call (.ecuReset 1) [], .call (.ecuReset 0x80) [], .call .testerPresent [⟨1, [0x7F, 0x3E, 0x22]⟩], .stray [0x51, 0x01]]).1
      (.call (.ecuReset 1) [⟨3, [0x51, 0x01]⟩])).2 =
    (hstep { cfg := { send := ⟨some 100, 50, 500, false⟩ } } (.call (.ecuReset 1) [⟨3, [0x51, 0x01]⟩])).2 := by decide +kernel

end Uds.Props.C15
