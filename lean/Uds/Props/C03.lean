import Uds.Model.History
import Uds.Model.DecodeDtc
import Uds.Lemmas.Py
import Uds.Lemmas.Bytes
import Uds.Props.C09
/-
  C03 — a response is accepted only if it answers the request that was actually sent.

  Part A: `send_request` hands a response to the caller only if it is a valid positive response whose service is the
          service of the request (for every arrival schedule, any number of 0x78 frames before it).
  Part B: the simple services — a call returns the response only if every echo in the response data equals the bytes of
          the frame that was transmitted (sub-function with the suppress bit masked, routine identifier, sequence counter).
  Part C: the remaining client methods — accepted ⇒ each echo in the wire data equals the transmitted argument.
-/
namespace Uds.Props.C03
open Uds Uds.Model

/-! ## A. service identifier -/

theorem classify_positive (rid : Nat) (r : Response) (h : classifyResp rid r = .positive) :
    r.valid = true ∧ r.positive = true ∧ ∃ s, r.service = some s ∧ s.sid + 0x40 = rid := by
  unfold classifyResp at h
  by_cases hv : r.valid = true
  · simp only [hv, Bool.not_true, Bool.false_eq_true, if_false] at h
    cases hs : r.service with
    | none => simp [hs] at h
    | some s =>
      cases hc : r.code with
      | none => simp [hs, hc] at h
      | some c =>
        simp only [hs, hc] at h
        by_cases hr : (s.sid + 0x40 != rid) = true
        · simp [hr] at h
        · simp only [hr, Bool.false_eq_true, if_false] at h
          by_cases hp : r.positive = true
          · refine ⟨hv, hp, s, rfl, ?_⟩
            simpa using hr
          · simp only [Bool.not_eq_true] at hp
            simp only [hp, Bool.not_false, if_true] at h
            split at h <;> cases h
  · simp only [Bool.not_eq_true] at hv
    simp [hv] at h

/-- whatever arrives and whenever: the loop returns a response object only for a frame that classifies as the positive
    response of the pending service -/
theorem loop_resp (dl : Option Nat) (ps : Nat) (cb : Bool) (rid : Nat) (spr : Bool) (now single : Nat) (star : Bool)
    (arr : List Frame) (r : Response) (h : (waitLoop dl ps cb rid spr now single star arr).outcome = .resp r) :
    ∃ f ∈ arr, r = Response.fromPayload f.payload ∧ classifyResp rid r = .positive := by
  induction arr generalizing now single star with
  | nil =>
    rw [waitLoop] at h
    simp only [] at h
    split at h <;> cases h
  | cons f rest ih =>
    rw [waitLoop] at h
    simp only [] at h
    split at h
    · cases hcl : classifyResp rid (Response.fromPayload f.payload) <;> simp only [hcl] at h
      case positive =>
        split at h
        · cases h
        · cases h; exact ⟨f, by simp, rfl, hcl⟩
      case pending =>
        obtain ⟨g, hg, h1, h2⟩ := ih _ _ _ h
        exact ⟨g, by simp [hg], h1, h2⟩
      all_goals cases h
    · split at h <;> cases h

/-- **service_id_matches** — `send_request` returns a response object only when it is a valid positive response of the
    very service of the request (its first byte is that service's response identifier) -/
theorem send_resp_sid (cfg : SendCfg) (st : ClientState) (req : Request) (timeout : Option Nat) (arr : List Frame) (r : Response)
    (h : (sendRequest cfg st req timeout arr).outcome = .resp r) :
    ∃ svc s f, req.service = some svc ∧ f ∈ arr ∧ r = Response.fromPayload f.payload ∧
      r.service = some s ∧ s.sid = svc.sid ∧ r.positive = true ∧ r.valid = true := by
  unfold sendRequest at h
  cases hs : req.service with
  | none => simp [hs] at h
  | some svc =>
    simp only [hs] at h
    split at h
    · cases h
    · split at h
      · cases h
      · simp only [] at h
        obtain ⟨f, hf, h1, h2⟩ := loop_resp _ _ _ _ _ _ _ _ _ _ h
        obtain ⟨hv, hp, s, hs', hsid⟩ := classify_positive _ _ h2
        exact ⟨svc, s, f, rfl, hf, h1, hs', by omega, hp, hv⟩

/-- the first byte of a frame that parses as a positive response of service `s` is `s.sid + 0x40` -/
theorem positive_first_byte (p : Bytes) (s : Service) (h1 : (Response.fromPayload p).service = some s)
    (h2 : (Response.fromPayload p).positive = true) : ∃ b rest, p = b :: rest ∧ b.toNat = s.sid + 0x40 := by
  unfold Response.fromPayload at h1 h2
  cases p with
  | nil => simp at h1
  | cons b rest =>
    refine ⟨b, rest, rfl, ?_⟩
    simp only at h1 h2
    by_cases hb : (b != 0x7F) = true
    · simp only [hb, if_true] at h1 h2
      cases hf : fromResponseId b.toNat with
      | none => simp [hf] at h1
      | some s' =>
        simp only [hf] at h1 h2
        have hs' : s' = s := by
          split at h1 <;> simpa using h1
        subst hs'
        unfold fromResponseId at hf
        have := List.find?_some hf
        simp only [beq_iff_eq] at this
        exact this.symm
    · simp only [hb, Bool.false_eq_true, if_false] at h1 h2
      split at h2
      · cases h2
      · split at h2
        · cases h2
        · split at h2 <;> cases h2

/-! ## B. the simple services: echoes against the transmitted frame -/

/-- the sub-function of a transmitted frame, suppress-positive-response bit masked off -/
def frameSf (p : Bytes) : Option Nat := p[1]?.map (fun b => b.toNat % 128)

/-- which bytes of the response data must repeat which bytes of the transmitted frame `p` -/
def EchoOk : Entry → Bytes → Bytes → Prop
  | .transferExit _, _, _ => True
  | .clearDtc _ _, _, _ => True
  | .transferData _ _, p, d => d ≠ [] ∧ d[0]? = p[1]?
  | .routineControl _ _ _, p, d => d[0]?.map (·.toNat) = frameSf p ∧ 3 ≤ d.length ∧ (d.drop 1).take 2 = (p.drop 2).take 2
  | _, p, d => d ≠ [] ∧ d[0]?.map (·.toNat) = frameSf p

/-- the same relation against the request object the builder produced -/
def EchoReq : Entry → Request → Bytes → Prop
  | .transferExit _, _, _ => True
  | .clearDtc _ _, _, _ => True
  | .transferData _ _, r, d => d ≠ [] ∧ d[0]? = (r.data.getD [])[0]?
  | .routineControl _ _ _, r, d => d[0]?.map (·.toNat) = r.subfunction ∧ 3 ≤ d.length ∧ (d.drop 1).take 2 = (r.data.getD []).take 2
  | _, r, d => d ≠ [] ∧ d[0]?.map (·.toNat) = r.subfunction

theorem echo1_ok (d : Bytes) (n : Nat) (h : echo1 d = .ok n) : d ≠ [] ∧ d[0]?.map (·.toNat) = some n := by
  cases d with
  | nil => simp [echo1] at h
  | cons b t =>
    have : echo1 (b :: t) = .ok b.toNat := by simp [echo1, idx, pure, Except.pure, bind, Except.bind]
    rw [this] at h; cases h; simp

theorem echoPost_ok (x : Int) (d : Bytes) (n : Nat) (h : echoPost x d = .ok n) : d ≠ [] ∧ d[0]?.map (·.toNat) = some n ∧ (n : Int) = x := by
  unfold echoPost at h
  simp only [bind_ok, ite_throw_bind_ok, pure_ok] at h
  obtain ⟨e, he, hx, rfl⟩ := h
  obtain ⟨h1, h2⟩ := echo1_ok d e he
  exact ⟨h1, h2, by simpa using hx⟩

theorem slice13 (d : Bytes) : slice d 1 3 = (d.drop 1).take 2 := by
  simp [slice, List.drop_take]

theorem take2_toBE (n : Nat) (dd : Bytes) : (toBE 2 n ++ dd).take 2 = toBE 2 n := by
  rw [List.take_append_of_le_length (by simp)]; exact List.take_of_length_le (by simp)

theorem toNat_of_eq {t : Int} {n : Nat} (h : (n : Int) = t) : t.toNat = n := by omega

theorem head_toNat (d : Bytes) (h : 0 < d.length) : d[0]?.map (·.toNat) = some d[0].toNat := by
  rw [List.getElem?_eq_getElem h]; rfl

theorem linkControl_shape (ct : Int) (baud : Option Baudrate) (r : Request) (h : linkControlMakeRequest ct baud = .ok r) :
    (0 ≤ ct ∧ ct ≤ 0x7F) ∧ ∃ data, r = mkReq "LinkControl" (some ct.toNat) data := by
  unfold linkControlMakeRequest at h
  simp only [bind_ok, validateInt_ok] at h
  obtain ⟨_, hv, _, _, h⟩ := h
  refine ⟨hv, ?_⟩
  cases baud with
  | none => simp only [pure_ok] at h; exact ⟨_, h.symm⟩
  | some b => simp only [bind_ok, pure_ok] at h; obtain ⟨_, _, _, _, h⟩ := h; exact ⟨_, h.symm⟩

theorem linkControl_sf (ct : Int) (baud : Option Baudrate) (r : Request) (h : linkControlMakeRequest ct baud = .ok r) :
    r.subfunction = some ct.toNat := by
  obtain ⟨_, _, rfl⟩ := linkControl_shape ct baud r h; rfl

/-- **accepted ⇒ echoes equal the request object's fields** (every simple entry point) -/
theorem post_echo (std : Nat) (e : Entry) (r : Request) (d : Bytes) (t : Option (Nat × Nat))
    (hm : e.makeRequest std = .ok r) (hp : e.post std d = .ok t) : EchoReq e r d := by
  cases e with
  | changeSession n =>
    simp only [Entry.makeRequest, dscMakeRequest, bind_ok, validateInt_ok, pure_ok] at hm
    obtain ⟨_, _, rfl⟩ := hm
    simp only [Entry.post, bind_ok, ite_throw_bind_ok] at hp
    obtain ⟨sd, hsd, hx, _⟩ := hp
    have hn : (sd.sessionEcho : Int) = n := by
      have : n = (sd.sessionEcho : Int) := by simpa using hx
      exact this.symm
    unfold dscInterpret at hsd
    simp only [bind_ok] at hsd
    obtain ⟨e1, he1, hsd⟩ := hsd
    obtain ⟨h1, h2⟩ := echo1_ok d e1 he1
    have : sd.sessionEcho = e1 := by
      split at hsd
      · split at hsd
        · simp at hsd
        · simp only [pure_ok] at hsd; rw [← hsd]
      · simp only [pure_ok] at hsd; rw [← hsd]
    refine ⟨h1, ?_⟩
    simp only [mkReq]
    rw [h2, ← this, toNat_of_eq hn]
  | ecuReset t =>
    simp only [Entry.makeRequest, ecuResetMakeRequest, bind_ok, validateInt_ok, pure_ok] at hm
    obtain ⟨_, _, rfl⟩ := hm
    simp only [Entry.post, ecuResetPost, bind_ok] at hp
    obtain ⟨_, ⟨e1, he1, hp⟩, _⟩ := hp
    obtain ⟨h1, h2⟩ := echo1_ok d e1 he1
    have hn : (e1 : Int) = t := by
      split at hp
      · simp only [bind_ok, ite_throw_bind_ok] at hp
        obtain ⟨_, _, hx, _⟩ := hp; simpa using hx
      · simp only [bind_ok, ite_throw_bind_ok] at hp
        obtain ⟨_, _, hx, _⟩ := hp; simpa using hx
    exact ⟨h1, by simp only [mkReq]; rw [h2, toNat_of_eq hn]⟩
  | requestSeed l sp =>
    simp only [Entry.makeRequest, saMakeRequest, bind_ok, validateInt_ok, pure_ok] at hm
    obtain ⟨_, _, sf, hsf, rfl⟩ := hm
    simp only [Entry.post, saPost, bind_ok, ite_throw_bind_ok, pure_ok] at hp
    obtain ⟨_, ⟨hl, b, hb, ex, hex, hx, _⟩, _⟩ := hp
    rw [hsf] at hex; cases hex
    have hlen : 0 < d.length := by
      simp only [beq_self_eq_true, if_true, Nat.not_lt] at hl; omega
    rw [idx_ok hlen] at hb; cases hb
    have : d[0].toNat = sf := by simpa using hx
    refine ⟨by intro h0; simp [h0] at hlen, ?_⟩
    simp only [mkReq]
    rw [head_toNat d hlen, this]
  | sendKey l k =>
    simp only [Entry.makeRequest, saMakeRequest, bind_ok, validateInt_ok, pure_ok] at hm
    obtain ⟨_, _, sf, hsf, rfl⟩ := hm
    simp only [Entry.post, saPost, bind_ok, ite_throw_bind_ok, pure_ok] at hp
    obtain ⟨_, ⟨hl, b, hb, ex, hex, hx, _⟩, _⟩ := hp
    rw [hsf] at hex; cases hex
    have hlen : 0 < d.length := by
      have : (SaMode.sendKey == SaMode.requestSeed) = false := by decide
      simp only [this, Bool.false_eq_true, if_false, Nat.not_lt] at hl; omega
    rw [idx_ok hlen] at hb; cases hb
    have : d[0].toNat = sf := by simpa using hx
    refine ⟨by intro h0; simp [h0] at hlen, ?_⟩
    simp only [mkReq]
    rw [head_toNat d hlen, this]
  | testerPresent =>
    simp only [Entry.makeRequest, testerPresentMakeRequest, pure_ok] at hm
    subst hm
    simp only [Entry.post, bind_ok, pure_ok] at hp
    obtain ⟨n, hn, _⟩ := hp
    obtain ⟨h1, h2, h3⟩ := echoPost_ok _ _ _ hn
    exact ⟨h1, by simp only [mkReq]; rw [h2]; congr 1; omega⟩
  | commControl ct c node =>
    simp only [Entry.post, bind_ok, pure_ok] at hp
    obtain ⟨n, hn, _⟩ := hp
    obtain ⟨h1, h2, h3⟩ := echoPost_ok _ _ _ hn
    have : r.subfunction = some ct.toNat := by
      simp only [Entry.makeRequest, commControlMakeRequest, bind_ok, ite_throw_bind_ok] at hm
      obtain ⟨_, _, _, _, _, _, _, _, hm⟩ := hm
      cases node with
      | none => simp only [pure_ok] at hm; rw [← hm]; rfl
      | some x => simp only [bind_ok, pure_ok] at hm; obtain ⟨_, _, hm⟩ := hm; rw [← hm]; rfl
    exact ⟨h1, by rw [h2, this, toNat_of_eq h3]⟩
  | accessTiming t rec =>
    simp only [Entry.post, bind_ok, pure_ok] at hp
    obtain ⟨n, hn, _⟩ := hp
    obtain ⟨h1, h2, h3⟩ := echoPost_ok _ _ _ hn
    have : r.subfunction = some t.toNat := by
      simp only [Entry.makeRequest, accessTimingMakeRequest, bind_ok, ite_throw_bind_ok, pure_ok] at hm
      obtain ⟨_, _, _, _, hm⟩ := hm
      rw [← hm]; rfl
    exact ⟨h1, by rw [h2, this, toNat_of_eq h3]⟩
  | controlDtc t dd =>
    simp only [Entry.makeRequest, controlDtcMakeRequest, bind_ok, validateInt_ok, pure_ok] at hm
    obtain ⟨_, _, rfl⟩ := hm
    simp only [Entry.post, bind_ok, pure_ok] at hp
    obtain ⟨n, hn, _⟩ := hp
    obtain ⟨h1, h2, h3⟩ := echoPost_ok _ _ _ hn
    exact ⟨h1, by simp only [mkReq]; rw [h2, toNat_of_eq h3]⟩
  | linkControl ct baud =>
    simp only [Entry.post, bind_ok, pure_ok] at hp
    obtain ⟨n, hn, _⟩ := hp
    obtain ⟨h1, h2, h3⟩ := echoPost_ok _ _ _ hn
    have : r.subfunction = some ct.toNat := linkControl_sf ct baud r hm
    exact ⟨h1, by rw [h2, this, toNat_of_eq h3]⟩
  | routineControl rid ct dd =>
    simp only [Entry.makeRequest, routineControlMakeRequest, bind_ok, validateInt_ok, pure_ok] at hm
    obtain ⟨_, ⟨r1, r2⟩, _, _, rfl⟩ := hm
    simp only [Entry.post, routineControlPost, bind_ok, ite_throw_bind_ok, pure_ok] at hp
    obtain ⟨_, ⟨hl, b, hb, hx, hy, _⟩, _⟩ := hp
    have hlen : 3 ≤ d.length := by omega
    rw [idx_ok (by omega)] at hb; cases hb
    have h1 : (d[0].toNat : Int) = ct := by
      have : ct = (d[0].toNat : Int) := by simpa using hx
      exact this.symm
    have h2 : (fromBE (slice d 1 3) : Int) = rid := by
      have : rid = (fromBE (slice d 1 3) : Int) := by simpa using hy
      exact this.symm
    refine ⟨?_, hlen, ?_⟩
    · simp only [mkReq]; rw [head_toNat d (by omega), toNat_of_eq h1]
    · simp only [mkReq, Option.getD_some]
      have hl2 : ((d.drop 1).take 2).length = 2 := by simp; omega
      rw [take2_toBE, toNat_of_eq h2, slice13]
      have := toBE_fromBE ((d.drop 1).take 2)
      rw [hl2] at this
      exact this.symm
  | transferData sq dd =>
    simp only [Entry.makeRequest, transferDataMakeRequest, bind_ok, validateInt_ok, pure_ok] at hm
    obtain ⟨_, ⟨s1, s2⟩, rfl⟩ := hm
    simp only [Entry.post, transferDataPost, bind_ok, ite_throw_bind_ok, pure_ok] at hp
    obtain ⟨_, ⟨e1, he1, hx, _⟩, _⟩ := hp
    obtain ⟨h1, h2⟩ := echo1_ok d e1 he1
    have hn : (e1 : Int) = sq := by
      have : sq = (e1 : Int) := by simpa using hx
      exact this.symm
    refine ⟨h1, ?_⟩
    simp only [mkReq, Option.getD_some, List.cons_append, List.nil_append, List.getElem?_cons_zero]
    cases d with
    | nil => exact absurd rfl h1
    | cons b tl =>
      simp only [List.getElem?_cons_zero, Option.map_some, Option.some.injEq] at h2 ⊢
      rw [toNat_of_eq hn, ← h2]
      exact (UInt8.ofNat_toNat).symm
  | transferExit dd => trivial
  | clearDtc g m => trivial

def hasSf : Entry → Bool
  | .transferExit _ => false
  | .clearDtc _ _ => false
  | .transferData _ _ => false
  | _ => true

theorem normalizeLevel_lt (m : SaMode) (l : Int) (sf : Nat) (h : normalizeLevel m l = .ok sf) : sf < 128 := by
  unfold normalizeLevel at h
  simp only [bind_ok, validateInt_ok] at h
  obtain ⟨_, ⟨h1, h2⟩, h⟩ := h
  cases m <;> simp only [pure_ok] at h <;> (split at h <;> omega)

theorem mkReq_facts (name : String) (sf : Option Nat) (data : Option Bytes) (s : Service) (hs : svc name = s) :
    (mkReq name sf data).spr = false ∧ (mkReq name sf data).service = some s ∧ (mkReq name sf data).subfunction = sf ∧ (mkReq name sf data).data = data := by
  subst hs; exact ⟨rfl, rfl, rfl, rfl⟩

/-- shape of every accepted simple request -/
theorem req_shape (std : Nat) (e : Entry) (r : Request) (hm : e.makeRequest std = .ok r) :
    r.spr = false ∧ ∃ s, r.service = some s ∧ s.sid < 256 ∧ s.useSubfn = hasSf e ∧
      (hasSf e = true → ∃ sf, r.subfunction = some sf ∧ sf < 128) := by
  cases e with
  | changeSession n =>
    simp only [Entry.makeRequest, dscMakeRequest, bind_ok, validateInt_ok, pure_ok] at hm
    obtain ⟨_, _, rfl⟩ := hm
    exact ⟨rfl, _, rfl, by decide, (by simp only [hasSf]; decide), fun _ => ⟨_, rfl, by omega⟩⟩
  | ecuReset t =>
    simp only [Entry.makeRequest, ecuResetMakeRequest, bind_ok, validateInt_ok, pure_ok] at hm
    obtain ⟨_, _, rfl⟩ := hm
    exact ⟨rfl, _, rfl, by decide, (by simp only [hasSf]; decide), fun _ => ⟨_, rfl, by omega⟩⟩
  | requestSeed l sp =>
    simp only [Entry.makeRequest, saMakeRequest, bind_ok, validateInt_ok, pure_ok] at hm
    obtain ⟨_, _, sf, hsf, rfl⟩ := hm
    exact ⟨rfl, _, rfl, by decide, (by simp only [hasSf]; decide), fun _ => ⟨_, rfl, normalizeLevel_lt _ _ _ hsf⟩⟩
  | sendKey l k =>
    simp only [Entry.makeRequest, saMakeRequest, bind_ok, validateInt_ok, pure_ok] at hm
    obtain ⟨_, _, sf, hsf, rfl⟩ := hm
    exact ⟨rfl, _, rfl, by decide, (by simp only [hasSf]; decide), fun _ => ⟨_, rfl, normalizeLevel_lt _ _ _ hsf⟩⟩
  | testerPresent =>
    simp only [Entry.makeRequest, testerPresentMakeRequest, pure_ok] at hm
    subst hm
    exact ⟨rfl, _, rfl, by decide, (by simp only [hasSf]; decide), fun _ => ⟨_, rfl, by omega⟩⟩
  | commControl ct c node =>
    simp only [Entry.makeRequest, commControlMakeRequest, bind_ok, ite_throw_bind_ok, validateInt_ok] at hm
    obtain ⟨_, hv, _, _, _, _, _, _, hm⟩ := hm
    cases node with
    | none => simp only [pure_ok] at hm; subst hm; exact ⟨rfl, _, rfl, by decide, (by simp only [hasSf]; decide), fun _ => ⟨_, rfl, by omega⟩⟩
    | some x =>
      simp only [bind_ok, pure_ok] at hm; obtain ⟨_, _, hm⟩ := hm; subst hm
      exact ⟨rfl, _, rfl, by decide, (by simp only [hasSf]; decide), fun _ => ⟨_, rfl, by omega⟩⟩
  | accessTiming t rec =>
    simp only [Entry.makeRequest, accessTimingMakeRequest, bind_ok, ite_throw_bind_ok, pure_ok, validateInt_ok] at hm
    obtain ⟨_, hv, _, _, hm⟩ := hm
    subst hm
    exact ⟨rfl, _, rfl, by decide, (by simp only [hasSf]; decide), fun _ => ⟨_, rfl, by omega⟩⟩
  | controlDtc t dd =>
    simp only [Entry.makeRequest, controlDtcMakeRequest, bind_ok, validateInt_ok, pure_ok] at hm
    obtain ⟨_, _, rfl⟩ := hm
    exact ⟨rfl, _, rfl, by decide, (by simp only [hasSf]; decide), fun _ => ⟨_, rfl, by omega⟩⟩
  | linkControl ct baud =>
    obtain ⟨hv, _, rfl⟩ := linkControl_shape ct baud r hm
    exact ⟨rfl, _, rfl, by decide, (by simp only [hasSf]; decide), fun _ => ⟨_, rfl, by omega⟩⟩
  | routineControl rid ct dd =>
    simp only [Entry.makeRequest, routineControlMakeRequest, bind_ok, validateInt_ok, pure_ok] at hm
    obtain ⟨_, _, _, _, rfl⟩ := hm
    exact ⟨rfl, _, rfl, by decide, (by simp only [hasSf]; decide), fun _ => ⟨_, rfl, by omega⟩⟩
  | transferData sq dd =>
    simp only [Entry.makeRequest, transferDataMakeRequest, bind_ok, validateInt_ok, pure_ok] at hm
    obtain ⟨_, _, rfl⟩ := hm
    exact ⟨rfl, _, rfl, by decide, (by simp only [hasSf]; decide), fun h => by cases h⟩
  | transferExit dd =>
    simp only [Entry.makeRequest, transferExitMakeRequest, pure_ok] at hm
    subst hm
    exact ⟨rfl, _, rfl, by decide, (by simp only [hasSf]; decide), fun h => by cases h⟩
  | clearDtc g m =>
    simp only [Entry.makeRequest, clearDtcMakeRequest, bind_ok, validateInt_ok] at hm
    obtain ⟨_, _, hm⟩ := hm
    cases m with
    | none => simp only [pure_ok] at hm; subst hm; exact ⟨rfl, _, rfl, by decide, (by simp only [hasSf]; decide), fun h => by cases h⟩
    | some x =>
      simp only [bind_ok, ite_throw_bind_ok, pure_ok] at hm
      obtain ⟨_, _, _, hm⟩ := hm; subst hm
      exact ⟨rfl, _, rfl, by decide, (by simp only [hasSf]; decide), fun h => by cases h⟩

/-- `p` is the frame of `req`: its payload with or without the suppress-positive-response bit -/
def Framed (req : Request) (p : Bytes) : Prop := req.getPayload (some true) = .ok p ∨ req.getPayload none = .ok p

theorem send_resp_frame (cfg : SendCfg) (st : ClientState) (req : Request) (timeout : Option Nat) (arr : List Frame) (r : Response)
    (hov : st.override = none) (h : (sendRequest cfg st req timeout arr).outcome = .resp r) :
    ∃ p rest, (sendRequest cfg st req timeout arr).log = .flush :: .send p :: rest ∧ Framed req p := by
  unfold sendRequest at h ⊢
  cases hs : req.service with
  | none => simp [hs] at h
  | some svc =>
    simp only [hs, hov] at h ⊢
    split at h
    · cases h
    · rename_i p0 hp0
      split at h
      · cases h
      · rename_i hc
        rw [if_neg hc]
        refine ⟨p0, _, rfl, ?_⟩
        unfold Framed
        split at hp0
        · exact Or.inl hp0
        · exact Or.inr hp0

theorem bit7_mod : ∀ x : Fin 128, (UInt8.ofNat (x.val ||| 0x80)).toNat % 128 = x.val ∧ (UInt8.ofNat x.val).toNat % 128 = x.val := by decide

theorem framed_sf (r : Request) (s : Service) (sf : Nat) (p : Bytes) (hs : r.service = some s) (hu : s.useSubfn = true) (h1 : s.sid < 256)
    (hsf : r.subfunction = some sf) (h2 : sf < 128) (hr : r.spr = false) (hf : Framed r p) :
    p[0]? = some (UInt8.ofNat s.sid) ∧ frameSf p = some sf ∧ p.drop 2 = r.data.getD [] := by
  obtain ⟨a, b⟩ := Uds.Props.C09.payload_with_subfn r s sf hs hu hsf h1 (by omega) hr
  obtain ⟨m1, m2⟩ := bit7_mod ⟨sf, h2⟩
  rcases hf with hf | hf
  · rw [a] at hf; cases hf
    exact ⟨rfl, by simp only [frameSf, List.cons_append, List.nil_append, List.getElem?_cons_succ, List.getElem?_cons_zero, Option.map_some]; exact congrArg some m1, rfl⟩
  · rw [b] at hf; cases hf
    exact ⟨rfl, by simp only [frameSf, List.cons_append, List.nil_append, List.getElem?_cons_succ, List.getElem?_cons_zero, Option.map_some]; exact congrArg some m2, rfl⟩

theorem framed_nosf (r : Request) (s : Service) (p : Bytes) (hs : r.service = some s) (hu : s.useSubfn = false) (_h1 : s.sid < 256)
    (hf : Framed r p) : p[0]? = some (UInt8.ofNat s.sid) ∧ p.drop 1 = r.data.getD [] := by
  rcases hf with hf | hf
  · simp [Request.getPayload, hs, hu, throw, throwThe, MonadExceptOf.throw] at hf
  · simp only [Request.getPayload, hs, hu, Bool.false_eq_true, if_false] at hf
    split at hf
    · simp at hf
    · simp only [bind_ok, packB_ok, pure_ok] at hf
      obtain ⟨_, ⟨_, rfl⟩, rfl⟩ := hf
      exact ⟨rfl, rfl⟩

theorem framed_echo (std : Nat) (e : Entry) (r : Request) (p d : Bytes) (hm : e.makeRequest std = .ok r) (hf : Framed r p)
    (he : EchoReq e r d) : EchoOk e p d ∧ ∃ s, r.service = some s ∧ p[0]? = some (UInt8.ofNat s.sid) := by
  obtain ⟨hspr, s, hs, hsid, hu, hsf⟩ := req_shape std e r hm
  have sfcase : hasSf e = true → (d ≠ [] ∧ d[0]?.map (·.toNat) = r.subfunction) →
      (d ≠ [] ∧ d[0]?.map (·.toNat) = frameSf p) ∧ p.drop 2 = r.data.getD [] ∧ p[0]? = some (UInt8.ofNat s.sid) := by
    intro h1 h2
    obtain ⟨sf, h3, h4⟩ := hsf h1
    obtain ⟨a, b, c⟩ := framed_sf r s sf p hs (by rw [hu, h1]) hsid h3 h4 hspr hf
    exact ⟨⟨h2.1, by rw [b, ← h3]; exact h2.2⟩, c, a⟩
  cases e with
  | transferExit dd =>
    obtain ⟨a, _⟩ := framed_nosf r s p hs (by rw [hu]; rfl) hsid hf
    exact ⟨trivial, s, hs, a⟩
  | clearDtc g m =>
    obtain ⟨a, _⟩ := framed_nosf r s p hs (by rw [hu]; rfl) hsid hf
    exact ⟨trivial, s, hs, a⟩
  | transferData sq dd =>
    obtain ⟨a, b⟩ := framed_nosf r s p hs (by rw [hu]; rfl) hsid hf
    refine ⟨⟨he.1, ?_⟩, s, hs, a⟩
    rw [he.2, ← b, List.getElem?_drop]
  | routineControl rid ct dd =>
    obtain ⟨x, y, z⟩ := sfcase rfl ⟨by intro h0; have := he.2.1; simp [h0] at this, he.1⟩
    exact ⟨⟨x.2, he.2.1, by rw [y]; exact he.2.2⟩, s, hs, z⟩
  | changeSession n => obtain ⟨x, _, z⟩ := sfcase rfl he; exact ⟨x, s, hs, z⟩
  | ecuReset n => obtain ⟨x, _, z⟩ := sfcase rfl he; exact ⟨x, s, hs, z⟩
  | requestSeed l sp => obtain ⟨x, _, z⟩ := sfcase rfl he; exact ⟨x, s, hs, z⟩
  | sendKey l k => obtain ⟨x, _, z⟩ := sfcase rfl he; exact ⟨x, s, hs, z⟩
  | testerPresent => obtain ⟨x, _, z⟩ := sfcase rfl he; exact ⟨x, s, hs, z⟩
  | commControl a b c => obtain ⟨x, _, z⟩ := sfcase rfl he; exact ⟨x, s, hs, z⟩
  | accessTiming a b => obtain ⟨x, _, z⟩ := sfcase rfl he; exact ⟨x, s, hs, z⟩
  | controlDtc a b => obtain ⟨x, _, z⟩ := sfcase rfl he; exact ⟨x, s, hs, z⟩
  | linkControl a b => obtain ⟨x, _, z⟩ := sfcase rfl he; exact ⟨x, s, hs, z⟩

/-- **call_accepts_only_answers** — a client call of a simple service hands the response to its caller only if
    (1) the response is a valid positive response whose first byte is the response identifier of the service of the frame that was
    transmitted, and (2) every echo in its data repeats the corresponding bytes of that transmitted frame.  For every arrival
    schedule (any 0x78 frames before it) and every client state without a payload override. -/
theorem call_accepts_only_answers (cfg : CallCfg) (st : ClientState) (e : Entry) (arr : List Frame) (resp : Response)
    (hov : st.override = none) (h : (callInner cfg st e arr).inner = .ret (some resp)) :
    ∃ p rest s, (callInner cfg st e arr).log = .flush :: .send p :: rest ∧
      p[0]? = some (UInt8.ofNat s.sid) ∧ resp.service = some s ∧ resp.positive = true ∧ resp.valid = true ∧
      (∃ f ∈ arr, resp = Response.fromPayload f.payload) ∧ EchoOk e p resp.data := by
  unfold callInner at h ⊢
  cases hm : e.makeRequest cfg.std with
  | error err => simp [hm] at h
  | ok req =>
    simp only [hm] at h ⊢
    cases ho : (sendRequest cfg.send st req none arr).outcome with
    | none => simp [ho] at h
    | raised a b c => simp [ho] at h
    | resp r =>
      simp only [ho] at h ⊢
      cases hp : e.post cfg.std r.data with
      | error err => simp [hp] at h
      | ok t =>
        simp only [hp] at h ⊢
        have : r = resp := by simpa using h
        subst this
        obtain ⟨p, rest, hlog, hf⟩ := send_resp_frame cfg.send st req none arr r hov ho
        obtain ⟨svc, s, f, hsvc, hfa, hfp, hrs, hsid, hpos, hval⟩ := send_resp_sid cfg.send st req none arr r ho
        obtain ⟨hecho, s', hs', hp0⟩ := framed_echo cfg.std e req p r.data hm hf (post_echo cfg.std e req r.data t hm hp)
        rw [hsvc] at hs'; cases hs'
        refine ⟨p, rest, s, hlog, ?_, hrs, hpos, hval, ⟨f, hfa, hfp⟩, hecho⟩
        rw [hp0, hsid]

/-! ## C. the remaining client methods: accepted ⇒ every echo in the wire data equals the transmitted argument -/

theorem idx_ok_iff {bs : Bytes} {i : Nat} {b : UInt8} : idx bs i = .ok b ↔ bs[i]? = some b := by
  by_cases h : i < bs.length
  · rw [idx_ok h, List.getElem?_eq_getElem h]; simp
  · have : bs[i]? = none := by simp; omega
    rw [this]; simp [idx, h, throw, throwThe, MonadExceptOf.throw]

/-! ### write / IO / dynamically-define / file transfer / authentication -/

theorem wdbi_echo (did : Nat) (d : Bytes) (r : SData) (h : wdbiClient did d = .ok r) : 2 ≤ d.length ∧ fromBE (d.take 2) = did := by
  simp only [wdbiClient, wdbiInterpret, bind_ok, guardPy_ok, pure_ok] at h
  obtain ⟨_, ⟨_, hl, e, he, rfl⟩, h⟩ := h
  have hl : 2 ≤ d.length := by simpa using hl
  simp only [ite_throw_ok', pure_ok] at h
  refine ⟨hl, ?_⟩
  unfold unpackBE at he
  split at he
  · simp only [pure_ok] at he; rw [he]; simpa using h.1
  · simp at he

theorem unpackBE_ok {w : Nat} {bs : Bytes} {n : Nat} (h : unpackBE w bs = .ok n) : bs.length = w ∧ n = fromBE bs := by
  unfold unpackBE at h
  split at h
  · simp only [pure_ok] at h; exact ⟨by assumption, h.symm⟩
  · simp at h

theorem auth_echo (task : Nat) (d : Bytes) (r : SData) (h : authClient task d = .ok r) : d[0]?.map (·.toNat) = some task := by
  simp only [authClient, authInterpret, bind_ok, guardPy_ok, pure_ok] at h
  obtain ⟨_, ⟨_, _, sf, hsf, rv, _, p, _, _, _, rfl⟩, h⟩ := h
  simp only [ite_throw_ok', pure_ok] at h
  rw [idx_ok_iff] at hsf
  rw [hsf]; simpa using h.1

theorem ddd_echo (sf : Nat) (did : Option Nat) (strict : Bool) (d : Bytes) (r : SData) (h : dddClient sf did strict d = .ok r) :
    d[0]?.map (·.toNat) = some sf ∧
    ∀ x, did = some x → (3 ≤ d.length → fromBE (slice d 1 3) = x) ∧ (strict = true → 3 ≤ d.length) ∧ ((sf = 1 ∨ sf = 2) → 3 ≤ d.length) := by
  simp only [dddClient, dddInterpret, bind_ok, guardPy_ok] at h
  obtain ⟨_, ⟨_, _, b, hb, _, hg, hr⟩, h⟩ := h
  rw [idx_ok_iff] at hb
  split at hr
  · rename_i hl
    simp only [bind_ok, pure_ok] at hr
    obtain ⟨e, he, rfl⟩ := hr
    obtain ⟨_, rfl⟩ := unpackBE_ok he
    simp only [ite_throw_ok'] at h
    obtain ⟨h1, h⟩ := h
    have h1 : b.toNat = sf := by simpa using h1
    refine ⟨by rw [hb]; simp [h1], ?_⟩
    intro x hx
    subst hx
    simp only [ite_throw_ok'] at h
    refine ⟨fun _ => ?_, fun _ => hl, fun _ => hl⟩
    have := h.1
    simpa using (by simpa using this : x = fromBE (slice d 1 3)).symm
  · rename_i hl
    simp only [pure_ok] at hr
    subst hr
    simp only [ite_throw_ok'] at h
    obtain ⟨h1, h⟩ := h
    have h1 : b.toNat = sf := by simpa using h1
    refine ⟨by rw [hb]; simp [h1], ?_⟩
    intro x hx
    subst hx
    simp only [ite_throw_ok'] at h
    refine ⟨fun h3 => absurd h3 hl, fun hs => ?_, fun h12 => ?_⟩
    · exact absurd hs (by simpa using h.1)
    · simp only [Bool.and_eq_false_iff, Bool.or_eq_false_iff, beq_eq_false_iff_ne, decide_eq_false_iff_not] at hg
      rcases hg with hg | hg
      · omega
      · omega

theorem ioDecode_fields (e : IoEntry) (tol : Bool) (did : Nat) (ce : Option Nat) (rem : Bytes) (r : SData) (h : ioDecode e tol did ce rem = .ok r) :
    ∃ x, r = .io did ce x := by
  unfold ioDecode at h
  cases hc : e.codecLen with
  | none => simp only [hc, pure_ok] at h; exact ⟨_, h.symm⟩
  | some n =>
    simp only [hc] at h
    split at h <;> (split at h
                    · simp only [pure_ok] at h; exact ⟨_, h.symm⟩
                    · simp at h)

theorem io_echo (cfg : IoCfg) (did : Nat) (cp : Option Nat) (tol : Bool) (d : Bytes) (r : SData) (h : ioClient cfg did cp tol d = .ok r) :
    2 ≤ d.length ∧ fromBE (d.take 2) = did ∧ ∀ c, cp = some c → d[2]?.map (·.toNat) = some c := by
  unfold ioClient at h
  split at h
  · split at h <;> simp at h
  · exact absurd h (by simp only [throw_ok]; exact id)
  · rename_i e ce x hi
    simp only [ioInterpret, bind_ok, guardPy_ok] at hi
    obtain ⟨_, hl, dd, hdd, ent, _, p, hp, hdec⟩ := hi
    obtain ⟨y, hy⟩ := ioDecode_fields _ _ _ _ _ _ hdec
    cases hy
    obtain ⟨hl2, rfl⟩ := unpackBE_ok hdd
    simp only [ite_throw_ok', pure_ok] at h
    obtain ⟨h1, h2, _⟩ := h
    have h1 : fromBE (d.take 2) = did := by simpa using h1
    have h2 : cp = p.1 := by simpa using h2
    refine ⟨by simp at hl2; omega, h1, ?_⟩
    intro c hc
    subst hc
    simp only [ioCpEcho, bind_ok, guardPy_ok, pure_ok] at hp
    obtain ⟨_, _, b, hb, rfl⟩ := hp
    rw [idx_ok_iff] at hb
    rw [hb]
    simp only [Option.some.injEq] at h2
    simp [h2]
  · rename_i other hne hi
    simp only [ioInterpret, bind_ok] at hi
    obtain ⟨_, _, dd, _, ent, _, p, _, hdec⟩ := hi
    obtain ⟨y, hy⟩ := ioDecode_fields _ _ _ _ _ _ hdec
    exact absurd hy (hne _ _ _)

theorem rftMaxLen_cursor (moop : Nat) (d : Bytes) (p : Option Nat × Nat) (h : rftMaxLen moop d = .ok p) (hl : rftHasLfid moop = true) :
    ∃ l, d[1]? = some l ∧ p.2 = 2 + l.toNat := by
  simp only [rftMaxLen, hl, if_true, bind_ok, guardPy_ok, pure_ok] at h
  obtain ⟨_, _, l, hlb, _, _, _, _, _, _, v, _, rfl⟩ := h
  rw [idx_ok_iff] at hlb
  exact ⟨l, hlb, rfl⟩

theorem rftDfiEcho_val (moop : Nat) (d : Bytes) (c1 : Nat) (p : Option Nat × Nat) (h : rftDfiEcho moop d c1 = .ok p) (hl : rftHasLfid moop = true) :
    ∃ b, d[c1]? = some b ∧ p.1 = some b.toNat := by
  simp only [rftDfiEcho, hl, if_true, bind_ok, guardPy_ok, pure_ok] at h
  obtain ⟨_, _, b, hb, _, _, rfl⟩ := h
  rw [idx_ok_iff] at hb
  exact ⟨b, hb, rfl⟩

theorem rft_echo (moop : Nat) (dfiSent : Option Nat) (tol : Bool) (d : Bytes) (r : SData) (h : rftClient moop dfiSent tol d = .ok r) :
    d[0]?.map (·.toNat) = some moop ∧
    ∀ b, dfiSent = some b → rftHasLfid moop = true → ∃ l, d[1]? = some l ∧ d[2 + l.toNat]?.map (·.toNat) = some b := by
  unfold rftClient at h
  split at h
  · split at h
    · split at h <;> simp at h
    · simp at h
  · split at h
    · split at h <;> simp at h
    · simp at h
  · exact absurd h (by simp only [throw_ok]; exact id)
  · rename_i m ml dfi fs di fp hi
    simp only [rftInterpret, bind_ok, guardPy_ok, pure_ok] at hi
    obtain ⟨_, _, m0, hm0, p1, hp1, p2, hp2, p3, _, p4, _, _, _, hr⟩ := hi
    rw [idx_ok_iff] at hm0
    simp only [SData.rft.injEq] at hr
    obtain ⟨rfl, _, rfl, _⟩ := hr
    simp only [ite_throw_ok'] at h
    obtain ⟨hm, h⟩ := h
    have hm : m0.toNat = moop := by simpa using hm
    refine ⟨by rw [hm0]; simp [hm], ?_⟩
    intro b hb hl
    subst hb
    rw [← hm] at hl
    obtain ⟨l, hl1, hl2⟩ := rftMaxLen_cursor _ _ _ hp1 hl
    obtain ⟨x, hx1, hx2⟩ := rftDfiEcho_val _ _ _ _ hp2 hl
    refine ⟨l, hl1, ?_⟩
    rw [← hl2, hx1]
    rw [hx2] at h
    simp only [ite_throw_ok'] at h
    simpa using h.1
  · rename_i other hne hi
    simp only [rftInterpret, bind_ok, pure_ok] at hi
    obtain ⟨_, _, m0, _, p1, _, p2, _, p3, _, p4, _, _, _, hr⟩ := hi
    exact absurd hr.symm (hne _ _ _ _ _ _)

theorem rdbi_echo (cfg : DidCfg) (tol : Bool) (dids : List Nat) (d : Bytes) (r : SData) (h : rdbiClient cfg tol dids d = .ok r) :
    ∃ vals, r = .rdbi vals ∧ (∀ v ∈ vals, v.1 ∈ dids) ∧ (∀ x ∈ dids, ∃ v ∈ vals, v.1 = x) := by
  unfold rdbiClient at h
  split at h
  · split at h <;> simp at h
  · exact absurd h (by simp only [throw_ok]; exact id)
  · rename_i vals hi
    simp only [ite_throw_ok', pure_ok] at h
    obtain ⟨h1, h2, rfl⟩ := h
    refine ⟨vals, rfl, ?_, ?_⟩
    · intro v hv
      simp only [List.any_eq_true, Bool.not_eq_true', not_exists, not_and] at h1
      have := h1 v hv
      simpa using this
    · intro x hx
      simp only [List.any_eq_true, Bool.not_eq_true', not_exists, not_and] at h2
      have := h2 x hx
      simp only [Bool.not_eq_false, List.any_eq_true, beq_iff_eq] at this
      exact this
  · rename_i other hne hi
    simp only [rdbiInterpret, bind_ok, pure_ok] at hi
    obtain ⟨_, _, vals, _, hr⟩ := hi
    exact absurd hr.symm (hne _)

/-! ### ReadDTCInformation -/

theorem dtcClient_ok (c : DtcCfg) (q : DtcReqCtx) (d : Bytes) (r : DtcData) (h : dtcClient c q d = .ok r) :
    dtcInterpret c q.sf d = .ok r ∧ (r.sfEcho : Int) = q.sf ∧ postSnapDtc q r = .ok () ∧ postSnapRec q r d = .ok () ∧
    postExtRec q r = .ok () ∧ postMemSel q r = .ok () ∧ postExtByRecord q r d = .ok () ∧ postFgid q r = .ok () := by
  unfold dtcClient at h
  split at h
  · rename_i r' hi
    simp only [ite_throw_ok', bind_ok, pure_ok] at h
    obtain ⟨hsf, _, hpost, rfl⟩ := h
    simp only [dtcPost, bind_ok] at hpost
    obtain ⟨_, h1, _, h2, _, h3, _, h4, _, h5, h6⟩ := hpost
    exact ⟨hi, by simpa using hsf, h1, h2, h3, h4, h5, h6⟩
  · split at h
    · split at h <;> simp at h
    · simp at h

theorem dtcInterpret_sfEcho (c : DtcCfg) (sf : Int) (d : Bytes) (r : DtcData) (h : dtcInterpret c sf d = .ok r) :
    d[0]?.map (·.toNat) = some r.sfEcho := by
  unfold dtcInterpret at h
  simp only [bind_ok] at h
  obtain ⟨_, _, _, _, h⟩ := h
  have fin : ∀ (e : UInt8), idx d 0 = .ok e → d[0]?.map (·.toNat) = some e.toNat := by
    intro e he; rw [idx_ok_iff] at he; rw [he]; rfl
  split at h
  all_goals first
    | (simp only [recordsInterpret, bind_ok, pure_ok] at h
       obtain ⟨e, he, _, _, _, _, _, _, _, _, rfl⟩ := h
       exact fin e he)
    | (simp only [g3Interpret, bind_ok, pure_ok] at h
       obtain ⟨e, he, _, _, rfl⟩ := h
       exact fin e he)
    | (simp only [countInterpret, bind_ok, pure_ok] at h
       obtain ⟨e, he, _, _, _, _, _, _, _, _, rfl⟩ := h
       exact fin e he)
    | (simp only [snapByDtcInterpret, bind_ok, pure_ok] at h
       obtain ⟨e, he, _, _, _, _, _, _, _, _, _, _, rfl⟩ := h
       exact fin e he)
    | (simp only [snapByRecordInterpret, bind_ok, pure_ok] at h
       obtain ⟨e, he, _, _, _, _, _, _, rfl⟩ := h
       exact fin e he)
    | (simp only [extByDtcInterpret, bind_ok, pure_ok] at h
       obtain ⟨e, he, _, _, _, _, _, _, _, _, _, _, _, _, rfl⟩ := h
       exact fin e he)
    | (simp only [extByRecordInterpret, bind_ok, pure_ok] at h
       obtain ⟨e, he, _, _, _, _, _, _, _, _, _, _, rfl⟩ := h
       exact fin e he)
    | (simp only [wwhInterpret, bind_ok, pure_ok] at h
       obtain ⟨e, he, _, _, _, _, _, _, _, _, _, _, _, _, _, _, _, _, rfl⟩ := h
       exact fin e he)
    | (simp only [bind_ok, pure_ok] at h
       obtain ⟨e, he, rfl⟩ := h
       exact fin e he)

/-- **sub-function echo**: `read_dtc_information` (all 26 getters) returns only when the first data byte is the requested sub-function -/
theorem dtc_sf_echo (c : DtcCfg) (q : DtcReqCtx) (d : Bytes) (r : DtcData) (h : dtcClient c q d = .ok r) :
    ∃ b, d[0]? = some b ∧ (b.toNat : Int) = q.sf := by
  obtain ⟨hi, hsf, _⟩ := dtcClient_ok c q d r h
  have := dtcInterpret_sfEcho c q.sf d r hi
  cases h0 : d[0]? with
  | none => simp [h0] at this
  | some b =>
    simp only [h0, Option.map_some, Option.some.injEq] at this
    exact ⟨b, rfl, by rw [this]; exact hsf⟩

theorem optByte_true (d : Bytes) (i : Nat) (v : Option Nat) (h : optByte true d i = .ok v) : v = d[i]?.map (·.toNat) ∧ v.isSome = true := by
  simp only [optByte, if_true, bind_ok, pure_ok] at h
  obtain ⟨b, hb, rfl⟩ := h
  rw [idx_ok_iff] at hb
  rw [hb]; exact ⟨rfl, rfl⟩

theorem group_of_memsel (sf : Nat) (h : hasMemSel sf = true) :
    (sf = 0x17 ∧ dtcRespGroup sf = .records4) ∨ (sf = 0x18 ∧ dtcRespGroup sf = .snapByDtc) ∨ (sf = 0x19 ∧ dtcRespGroup sf = .extByDtc) := by
  simp only [hasMemSel, Bool.or_eq_true, beq_iff_eq] at h
  rcases h with (h | h) | h <;> subst h <;> simp [dtcRespGroup]

theorem dtcInterpret_memSel (c : DtcCfg) (sf : Int) (d : Bytes) (r : DtcData) (h : dtcInterpret c sf d = .ok r)
    (hm : hasMemSel sf.toNat = true) : r.memSel = d[1]?.map (·.toNat) ∧ r.memSel.isSome = true := by
  unfold dtcInterpret at h
  simp only [bind_ok] at h
  obtain ⟨_, _, _, _, h⟩ := h
  rcases group_of_memsel _ hm with ⟨_, hg⟩ | ⟨_, hg⟩ | ⟨_, hg⟩ <;> rw [hg] at h <;> simp only at h
  · simp only [recordsInterpret, hm, bind_ok, pure_ok] at h
    obtain ⟨_, _, _, _, ms, hms, _, _, _, _, rfl⟩ := h
    exact optByte_true _ _ _ hms
  · simp only [snapByDtcInterpret, hm, bind_ok, pure_ok] at h
    obtain ⟨_, _, _, _, ms, hms, _, _, _, _, _, _, rfl⟩ := h
    exact optByte_true _ _ _ hms
  · simp only [extByDtcInterpret, hm, bind_ok, pure_ok] at h
    obtain ⟨_, _, _, _, _, _, ms, hms, _, _, _, _, _, _, rfl⟩ := h
    exact optByte_true _ _ _ hms

/-- **memory selection echo** (sub-functions 0x17, 0x18, 0x19) -/
theorem dtc_memsel_echo (c : DtcCfg) (q : DtcReqCtx) (d : Bytes) (r : DtcData) (h : dtcClient c q d = .ok r)
    (hm : hasMemSel q.sf.toNat = true) (m : Nat) (hq : q.memSel = some m) : d[1]?.map (·.toNat) = some m := by
  obtain ⟨hi, _, _, _, _, h4, _⟩ := dtcClient_ok c q d r h
  obtain ⟨a, _⟩ := dtcInterpret_memSel c q.sf d r hi hm
  have hm' : (q.sf.toNat == 0x17 || q.sf.toNat == 0x18 || q.sf.toNat == 0x19) = true := hm
  simp only [postMemSel, hm', if_true, hq, guardPy_ok] at h4
  rw [← a]
  have : some m = r.memSel := by simpa using h4
  exact this.symm

theorem dtcInterpret_fgid' (c : DtcCfg) (sf : Int) (d : Bytes) (r : DtcData) (h : dtcInterpret c sf d = .ok r)
    (hsf : sf.toNat = 0x42 ∨ sf.toNat = 0x55) : r.fgid = d[1]?.map (·.toNat) ∧ r.fgid.isSome = true := by
  unfold dtcInterpret at h
  simp only [bind_ok] at h
  obtain ⟨_, _, _, _, h⟩ := h
  have key : ∀ mask, wwhInterpret c mask d = .ok r → r.fgid = d[1]?.map (·.toNat) ∧ r.fgid.isSome = true := by
    intro mask h
    simp only [wwhInterpret, bind_ok, pure_ok] at h
    obtain ⟨_, _, _, _, fg, hfg, _, _, _, _, _, _, _, _, _, _, _, _, rfl⟩ := h
    rw [idx_ok_iff] at hfg
    rw [hfg]; exact ⟨rfl, rfl⟩
  rcases hsf with hsf | hsf <;> rw [hsf] at h
  · have : dtcRespGroup 0x42 = .wwhMask := by decide
    rw [this] at h; exact key _ h
  · have : dtcRespGroup 0x55 = .wwhPerm := by decide
    rw [this] at h; exact key _ h

/-- **functional group echo** (sub-functions 0x42, 0x55) -/
theorem dtc_fgid_echo (c : DtcCfg) (q : DtcReqCtx) (d : Bytes) (r : DtcData) (h : dtcClient c q d = .ok r)
    (hsf : q.sf.toNat = 0x42 ∨ q.sf.toNat = 0x55) (g : Nat) (hq : q.fgid = some g) : d[1]?.map (·.toNat) = some g := by
  obtain ⟨hi, _, _, _, _, _, _, h6⟩ := dtcClient_ok c q d r h
  obtain ⟨a, b⟩ := dtcInterpret_fgid' c q.sf d r hi hsf
  have hc : (q.sf.toNat == 0x55 || q.sf.toNat == 0x42) = true := by
    rcases hsf with h | h <;> simp [h]
  cases hr : r.fgid with
  | none => simp [hr] at b
  | some got =>
    simp only [postFgid, hc, if_true, hr, hq, guardPy_ok] at h6
    rw [← a, hr]
    have : g = got := by simpa using h6
    rw [this]

theorem recEcho_ok (d : Bytes) (w : Nat) (h : recEcho d w = .ok ()) : d[1]?.map (·.toNat) = some w := by
  simp only [recEcho, bind_ok, guardPy_ok] at h
  obtain ⟨b, hb, h⟩ := h
  rw [idx_ok_iff] at hb
  rw [hb]
  have : b.toNat = w := by simpa using h
  simp [this]

/-- **record number echo, sub-function 0x16**: the byte after the sub-function, and the number attached to every returned record -/
theorem dtc_ext_by_record_echo (c : DtcCfg) (q : DtcReqCtx) (d : Bytes) (r : DtcData) (h : dtcClient c q d = .ok r)
    (hsf : q.sf.toNat = 0x16) (w : Nat) (hq : q.extRec = some w) :
    d[1]?.map (·.toNat) = some w ∧ ∀ x ∈ r.dtcs, ∀ e ∈ x.ext, e.1 = w := by
  obtain ⟨_, _, _, _, _, _, h5, _⟩ := dtcClient_ok c q d r h
  have hc : (q.sf.toNat == 0x16) = true := by simp [hsf]
  simp only [postExtByRecord, hc, if_true, hq, bind_ok, guardPy_ok] at h5
  obtain ⟨_, h5a, h5b⟩ := h5
  refine ⟨recEcho_ok d w h5a, ?_⟩
  intro x hx e he
  by_cases hne : e.1 = w
  · exact hne
  · exfalso
    have : (r.dtcs.any fun x => x.ext.any fun e => e.1 != w) = true := by
      simp only [List.any_eq_true]
      exact ⟨x, hx, e, he, by simpa using hne⟩
    rw [this] at h5b
    cases h5b

/-- **record number echo, snapshots** (0x05: also the byte after the sub-function; 0x04 / 0x18: every returned snapshot record);
    0xFF asks for all records and is not an echo -/
theorem dtc_snapshot_record_echo (c : DtcCfg) (q : DtcReqCtx) (d : Bytes) (r : DtcData) (h : dtcClient c q d = .ok r)
    (hsf : q.sf.toNat = 0x05 ∨ q.sf.toNat = 0x04 ∨ q.sf.toNat = 0x18) (w : Nat) (hq : q.snapRec = some w) (hw : w ≠ 0xFF) :
    (q.sf.toNat = 0x05 → d[1]?.map (·.toNat) = some w) ∧ ∀ x ∈ r.dtcs, ∀ s ∈ x.snaps, s.record = w := by
  obtain ⟨_, _, _, h2, _⟩ := dtcClient_ok c q d r h
  have hc : (q.sf.toNat == 0x05 || q.sf.toNat == 0x04 || q.sf.toNat == 0x18) = true := by
    rcases hsf with h | h | h <;> simp [h]
  have hw' : (w != 0xFF) = true := by simpa using hw
  simp only [postSnapRec, hc, if_true, hq, hw', bind_ok, guardPy_ok] at h2
  obtain ⟨_, h2a, h2b⟩ := h2
  constructor
  · intro h5
    have : (q.sf.toNat == 0x05) = true := by simp [h5]
    rw [if_pos this] at h2a
    exact recEcho_ok d w h2a
  · intro x hx s hs
    by_cases hne : s.record = w
    · exact hne
    · exfalso
      have : (r.dtcs.any fun x => x.snaps.any fun s => s.record != w) = true := by
        simp only [List.any_eq_true]
        exact ⟨x, hx, s, hs, by simpa using hne⟩
      rw [this] at h2b
      cases h2b

theorem snapByDtc_single (c : DtcCfg) (sf : Int) (d : Bytes) (r : DtcData) (h : dtcInterpret c sf d = .ok r)
    (hsf : sf.toNat = 0x04 ∨ sf.toNat = 0x18) :
    ∃ x, r.dtcs = [x] ∧ x.id = be3 (d.drop (if hasMemSel sf.toNat then 2 else 1)) := by
  unfold dtcInterpret at h
  simp only [bind_ok] at h
  obtain ⟨_, _, _, _, h⟩ := h
  have hg : dtcRespGroup sf.toNat = .snapByDtc := by rcases hsf with h | h <;> rw [h] <;> decide
  rw [hg] at h
  simp only [snapByDtcInterpret, bind_ok, pure_ok] at h
  obtain ⟨_, _, _, _, _, _, _, _, _, _, _, _, rfl⟩ := h
  exact ⟨_, rfl, rfl⟩

/-- **DTC number of a snapshot reply** (0x04 / 0x18): the three bytes after the sub-function (and memory selection) are the requested DTC -/
theorem dtc_snapshot_dtc_echo (c : DtcCfg) (q : DtcReqCtx) (d : Bytes) (r : DtcData) (h : dtcClient c q d = .ok r)
    (hsf : q.sf.toNat = 0x04 ∨ q.sf.toNat = 0x18) (t : Nat) (hq : q.dtc = some t) :
    be3 (d.drop (if hasMemSel q.sf.toNat then 2 else 1)) = t := by
  obtain ⟨hi, _, h1, _⟩ := dtcClient_ok c q d r h
  obtain ⟨x, hx, hid⟩ := snapByDtc_single c q.sf d r hi hsf
  have hc : (q.sf.toNat == 0x04 || q.sf.toNat == 0x18) = true := by rcases hsf with h | h <;> simp [h]
  simp only [postSnapDtc, hc, if_true, hx, hq, guardPy_ok] at h1
  rw [← hid]
  have : t = x.id := by simpa using h1
  exact this.symm

theorem extByDtc_single (c : DtcCfg) (sf : Int) (d : Bytes) (r : DtcData) (h : dtcInterpret c sf d = .ok r)
    (hsf : sf.toNat = 0x06 ∨ sf.toNat = 0x10 ∨ sf.toNat = 0x19) : ∃ x, r.dtcs = [x] := by
  unfold dtcInterpret at h
  simp only [bind_ok] at h
  obtain ⟨_, _, _, _, h⟩ := h
  have hg : dtcRespGroup sf.toNat = .extByDtc := by rcases hsf with h | h | h <;> rw [h] <;> decide
  rw [hg] at h
  simp only [extByDtcInterpret, bind_ok, pure_ok] at h
  obtain ⟨_, _, _, _, _, _, _, _, _, _, _, _, _, _, rfl⟩ := h
  exact ⟨_, rfl⟩

/-- **record number echo, extended data by DTC number** (0x06 / 0x10 / 0x19); numbers from 0xF0 select groups and are not echoes -/
theorem dtc_ext_record_echo (c : DtcCfg) (q : DtcReqCtx) (d : Bytes) (r : DtcData) (h : dtcClient c q d = .ok r)
    (hsf : q.sf.toNat = 0x06 ∨ q.sf.toNat = 0x10 ∨ q.sf.toNat = 0x19) (w : Nat) (hq : q.extRec = some w) (hw : w < 0xF0) :
    ∀ x ∈ r.dtcs, ∀ e ∈ x.ext, e.1 = w := by
  obtain ⟨hi, _, _, _, h3, _⟩ := dtcClient_ok c q d r h
  obtain ⟨x, hx⟩ := extByDtc_single c q.sf d r hi hsf
  have hc : (q.sf.toNat == 0x06 || q.sf.toNat == 0x10 || q.sf.toNat == 0x19) = true := by rcases hsf with h | h | h <;> simp [h]
  simp only [postExtRec, hc, if_true, hq, hx, guardPy_ok] at h3
  intro y hy e he
  rw [hx] at hy
  simp only [List.mem_singleton] at hy
  subst hy
  by_cases hne : e.1 = w
  · exact hne
  · exfalso
    have : (y.ext.any fun e => e.1 != w) = true := by
      simp only [List.any_eq_true]
      exact ⟨e, he, by simpa using hne⟩
    simp [this, hw] at h3

/-! ### WriteMemoryByAddress -/

/-- **addressAndLengthFormatIdentifier, address and size echoes**: the reply is accepted only if its first byte is the transmitted format
    byte and the next `|address|` and `|size|` bytes (the transmitted widths) hold the transmitted address and size -/
theorem wmba_echo (ml : MemLoc) (d : Bytes) (e : WriteMemEcho) (h : writeMemPost ml d = .ok e) :
    ∃ a s, ml.addressBytes = .ok a ∧ ml.sizeBytes = .ok s ∧ 1 + a.length + s.length ≤ d.length ∧
      d[0]?.map (·.toNat) = some ml.alfidByte ∧
      (fromBE (slice d 1 (1 + a.length)) : Int) = ml.address ∧
      (fromBE (slice d (1 + a.length) (1 + a.length + s.length)) : Int) = ml.size := by
  simp only [writeMemPost, writeMemInterpret, bind_ok, ite_throw_bind_ok, pure_ok] at h
  obtain ⟨e', ⟨a, ha, s, hs, hl, b0, hb0, rfl⟩, h1, h2, h3, rfl⟩ := h
  rw [idx_ok_iff] at hb0
  refine ⟨a, s, ha, hs, by omega, ?_, ?_, ?_⟩
  · rw [hb0]; simp only [Option.map_some, Option.some.injEq]; simpa using h1
  · simpa using h2
  · simpa using h3

/-! ### non-vacuity: matching replies are accepted, single-field mismatches are refused -/
example : (Entry.ecuReset 1).post 2020 [0x01] = .ok none := by decide
example : (Entry.ecuReset 1).post 2020 [0x04, 0x05] = .error .unexpected := by decide
example : (Entry.sendKey 6 []).post 2020 [0x06] = .ok none := by decide
example : (Entry.sendKey 6 []).post 2020 [0x05] = .error .unexpected := by decide
example : (Entry.routineControl 0x1234 1 none).post 2020 [0x01, 0x12, 0x34] = .ok none := by decide
example : (Entry.routineControl 0x1234 1 none).post 2020 [0x01, 0x12, 0x35] = .error .unexpected := by decide
example : ioClient { entries := [(0x1234, { codecLen := some 1 })] } 0x1234 (some 3) true [0x12, 0x34, 0x03, 0x55] = .ok (.io 0x1234 (some 3) (some [0x55])) := by decide
example : ioClient { entries := [(0x1234, { codecLen := some 1 })] } 0x1234 (some 3) true [0x12, 0x34, 0x02, 0x55] = .error .unexpected := by decide
example : ioClient { entries := [(0x1234, { codecLen := some 1 })] } 0x1234 (some 3) true [0x99, 0x99, 0x03, 0x55] = .error .unexpected := by decide
example : rftClient 6 (some 0) true [0x04, 0x09] = .error .unexpected := by decide
example : dtcClient { ext := .int 2 } { sf := 0x16, extRec := some 4 } [0x16, 0x05] = .error .unexpected := by decide +kernel
example : dtcClient {} { sf := 0x05, snapRec := some 2 } [0x05, 0x03] = .error .unexpected := by decide +kernel
example : (match dtcClient {} { sf := 0x05, snapRec := some 2 } [0x05, 0x02] with | .ok _ => true | .error _ => false) = true := by decide +kernel


end Uds.Props.C03
