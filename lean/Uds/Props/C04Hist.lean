import Uds.Props.C04Unlock
import Uds.Model.History
namespace Uds.Props.C04
open Uds Uds.Model

/-- one of the editions' shapes: nothing strictly between 2006 and 2013 -/
def EdOk (std : Nat) : Prop := std > 2006 → std ≥ 2013

/-- what a caller may see of one step of a history: a value, a documented exception, or a refusal of the arguments before anything was sent -/
def OutOk (o : HOut) : Prop :=
  match o.outer with
  | none => True
  | some (.ret _ _) => True
  | some (.exc err _ _) => err.documented = true ∨ o.log = []

theorem deliver_exc {sw : Switches} {i : Inner} {err : PyErr} {r : Option Response} {u : Bool} (h : deliver sw i = .exc err r u) :
    ∃ r', i = .exc err r' := by
  cases i with
  | ret x => simp [deliver] at h
  | exc e x =>
    refine ⟨x, ?_⟩
    have : e = err := by
      cases e <;> cases x <;> simp [deliver] at h <;> (try split at h) <;> simp_all
    rw [this]

theorem saMakeRequest_refused (L : Int) (m : SaMode) (d : Bytes) (hL : ¬ (1 ≤ L ∧ L ≤ 0x7E)) : ∃ err, saMakeRequest L m d = .error err := by
  unfold saMakeRequest
  cases hv : validateInt L 0 0x7F with
  | error e => exact ⟨e, rfl⟩
  | ok u =>
    have hn := Uds.Props.C13.normalize_rejects m L (by omega)
    simp only [bind, Except.bind, hn]
    exact ⟨_, rfl⟩

theorem callInner_refused_log (cfg : CallCfg) (st : ClientState) (e : Entry) (arr : List Frame) (err : PyErr) (h : e.makeRequest cfg.std = .error err) :
    (callInner cfg st e arr).log = [] := by
  unfold callInner; rw [h]

/-- one call of a history: a value, a documented exception, or a refusal with nothing sent — for every entry and every argument -/
theorem call_step_ok (cfg : CallCfg) (st : ClientState) (sw : Switches) (e : Entry) (arr : List Frame) (hstd : EdOk cfg.std) :
    OutOk { outer := some (deliver sw (callInner cfg st e arr).inner), log := (callInner cfg st e arr).log } := by
  unfold OutOk
  simp only []
  cases hd : deliver sw (callInner cfg st e arr).inner with
  | ret _ _ => trivial
  | exc err r u =>
    simp only []
    obtain ⟨r', hi⟩ := deliver_exc hd
    by_cases hlevel : ∀ l x, (e = .requestSeed l x ∨ e = .sendKey l x) → 1 ≤ l ∧ l ≤ 0x7E
    · have := call_documented cfg st e arr hstd hlevel
      rw [hi] at this
      rcases this with h | ⟨_, h⟩
      · exact Or.inl h
      · exact Or.inr h
    · refine Or.inr ?_
      have : ∃ l x, (e = .requestSeed l x ∨ e = .sendKey l x) ∧ ¬ (1 ≤ l ∧ l ≤ 0x7E) := by
        apply Classical.byContradiction
        intro hne
        apply hlevel
        intro l x hx
        apply Classical.byContradiction
        intro hl
        exact hne ⟨l, x, hx, hl⟩
      obtain ⟨l, x, hx, hl⟩ := this
      rcases hx with hx | hx <;> subst hx
      · obtain ⟨er, her⟩ := saMakeRequest_refused l .requestSeed x hl
        exact callInner_refused_log cfg st _ arr er (by simp only [Entry.makeRequest]; exact her)
      · obtain ⟨er, her⟩ := saMakeRequest_refused l .sendKey x hl
        exact callInner_refused_log cfg st _ arr er (by simp only [Entry.makeRequest]; exact her)

theorem unlock_step_ok (cfg : CallCfg) (st : ClientState) (sw : Switches) (algo : Bytes → Int → Bytes) (L : Int) (sp : Bytes) (a1 a2 : List Frame) (hstd : EdOk cfg.std) :
    OutOk { outer := some (deliver sw (unlockInner cfg st true algo L sp a1 a2).inner), log := (unlockInner cfg st true algo L sp a1 a2).log,
            algoCalls := (unlockInner cfg st true algo L sp a1 a2).algoCalls } := by
  unfold OutOk
  simp only []
  cases hd : deliver sw (unlockInner cfg st true algo L sp a1 a2).inner with
  | ret _ _ => trivial
  | exc err r u =>
    simp only []
    obtain ⟨r', hi⟩ := deliver_exc hd
    by_cases hL : 1 ≤ L ∧ L ≤ 0x7E
    · have := unlock_documented cfg st true algo L sp a1 a2 hstd hL
      rw [hi] at this
      exact Or.inl this
    · exact Or.inr (unlock_refused cfg st algo L sp a1 a2 (by omega)).2

theorem hstep_ok (s : HState) (op : HOp) (hs : EdOk s.cfg.std) (hop : ∀ v, op = .setStd v → EdOk v) :
    OutOk (hstep s op).2 ∧ EdOk (hstep s op).1.cfg.std := by
  cases op with
  | call e arr => exact ⟨call_step_ok s.cfg s.cs s.sw e arr hs, hs⟩
  | unlock L sp a1 a2 => exact ⟨unlock_step_ok s.cfg s.cs s.sw demoAlgo L sp a1 a2 hs, hs⟩
  | setStd v => exact ⟨by simp [hstep, OutOk], hop v rfl⟩
  | _ => exact ⟨by simp [hstep, OutOk], hs⟩

/-- **every step of every history ends in a value, a documented exception, or a refusal before anything was sent**: any sequence of calls (any
    entry point, any arguments, any frames with any timing), seed/key composites, blocks entered and left in any order, configuration changes
    among the editions, switches set to anything, stray frames -/
theorem history_documented (s : HState) (ops : List HOp) (hs : EdOk s.cfg.std) (hops : ∀ v, HOp.setStd v ∈ ops → EdOk v) :
    ∀ o ∈ (hrun s ops).2, OutOk o := by
  induction ops generalizing s with
  | nil => simp [hrun]
  | cons op rest ih =>
    obtain ⟨h1, h2⟩ := hstep_ok s op hs (fun v hv => hops v (by simp [hv]))
    intro o ho
    simp only [hrun, List.mem_cons] at ho
    rcases ho with ho | ho
    · rw [ho]; exact h1
    · exact ih (hstep s op).1 h2 (fun v hv => hops v (by simp [hv])) o ho

example : ∀ o ∈ (hrun { cfg := { send := ⟨some 100, 50, 500, false⟩ } }
    [.call (.ecuReset 1) [⟨3, [0x51]⟩], .setSwitches ⟨false, false, false⟩, .enterSpr true, .call (.requestSeed 0x7F []) [], .exitSpr,
     .unlock 3 [] [⟨1, [0x67, 0x03, 0xAA]⟩] [⟨1, [0x7F, 0x27, 0x35]⟩], .setStd 2006, .call (.changeSession 3) [⟨2, [0x50, 0x03]⟩]]).2, OutOk o :=
  history_documented _ _ (by unfold EdOk; decide) (by intro v hv; simp at hv; subst hv; unfold EdOk; decide)

end Uds.Props.C04
