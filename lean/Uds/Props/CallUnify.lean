import Uds.Props.C06Call
import Uds.Props.C09Call
import Uds.Props.C11Call
/-
  The two call models are one: the body of the 13 simple client methods (`callInner`, `Entry`) is the generic body `callWith` instantiated with the
  entry's request builder and its interpretation + echo checks (`Entry.post`).  Every call-level theorem proved for `callWith` (C02Call, C03Call,
  C06Call, C09Call, C11Call) therefore holds for the simple entry points as well; the corollaries below state the main ones.
-/
namespace Uds.Props.CallUnify
open Uds Uds.Model Uds.Props.C05 Uds.Props.C02

/-- what a caller can tell apart without looking into the response object: returned None / returned something / raised `e` -/
inductive Shape where
  | none | some | exc (e : PyErr)
  deriving DecidableEq, Repr

def Inner.shape : Inner → Shape
  | .ret none => .none
  | .ret (some _) => .some
  | .exc e _ => .exc e

def CallOut.shape {α : Type} : CallOut α → Shape
  | .ret none => .none
  | .ret (some _) => .some
  | .exc e => .exc e

/-- **the simple entry points are instances of the generic method body** -/
theorem callInner_is_callWith (cfg : CallCfg) (st : ClientState) (e : Entry) (arr : List Frame) (req : Request)
    (hm : e.makeRequest cfg.std = .ok req) :
    Inner.shape (callInner cfg st e arr).inner = CallOut.shape (callWith cfg.send st req (fun d => e.post cfg.std d) arr) ∧
    (callInner cfg st e arr).log = (sendRequest cfg.send st req none arr).log := by
  unfold callInner callWith
  simp only [hm]
  cases ho : (sendRequest cfg.send st req none arr).outcome with
  | none => exact ⟨rfl, rfl⟩
  | raised a b c => exact ⟨rfl, rfl⟩
  | resp r =>
    simp only []
    cases hp : e.post cfg.std r.data with
    | error err => exact ⟨rfl, rfl⟩
    | ok t => exact ⟨rfl, rfl⟩

/-- a request the builder refuses is raised before anything is sent -/
theorem callInner_refused (cfg : CallCfg) (st : ClientState) (e : Entry) (arr : List Frame) (err : PyErr)
    (hm : e.makeRequest cfg.std = .error err) :
    (callInner cfg st e arr).inner = .exc err none ∧ (callInner cfg st e arr).log = [] := by
  unfold callInner; simp only [hm]; exact ⟨trivial, trivial⟩

/-- **C06 for the simple entry points**: any negative response code but 0x78, after any number of in-time pending replies, makes the method raise
    the negative outcome with that code -/
theorem simple_call_negative (cfg : CallCfg) (st : ClientState) (e : Entry) (req : Request) (svc : Service) (p0 : Bytes)
    (pend : List Frame) (c : UInt8) (tail : Bytes) (tfin : Nat) (extra : List Frame)
    (hm : e.makeRequest cfg.std = .ok req) (hsvc : req.service = some svc) (hs : svc ∈ services) (hp0 : req.getPayload none = .ok p0)
    (hreqspr : req.spr = false) (hreads : st.spr.enabled = false ∨ st.spr.waitNrc = true) (hc : c ≠ 0x78)
    (hp : ∀ f ∈ pend, ∃ t, f.payload = C06.nrcFrame svc 0x78 t)
    (ht : Spec.InTime cfg.send.requestTimeout (p2starEff cfg.send st) 0 (firstSingle cfg.send st) (pend.map (·.arrival)) tfin) :
    Inner.shape (callInner cfg st e (pend ++ ⟨tfin, C06.nrcFrame svc c tail⟩ :: extra)).inner = .exc (.negative c.toNat) := by
  rw [(callInner_is_callWith cfg st e _ req hm).1,
      C06.callWith_negative cfg.send st req _ svc p0 pend c tail tfin extra hsvc hs hp0 hreqspr hreads hc hp ht]
  rfl

/-- **C09 for the simple entry points**: inside a suppress block without wait_nrc the method returns None and exactly the bit-7 frame is sent -/
theorem simple_call_suppressed (cfg : CallCfg) (st : ClientState) (e : Entry) (req : Request) (svc : Service) (arr : List Frame) (p : Bytes)
    (hm : e.makeRequest cfg.std = .ok req) (hs : req.service = some svc) (hu : svc.useSubfn = true) (hen : st.spr = ⟨true, false⟩)
    (hp : req.getPayload (some true) = .ok p) :
    Inner.shape (callInner cfg st e arr).inner = .none ∧
    (callInner cfg st e arr).log = [.flush, .send (match st.override with | some m => m.apply p | none => p)] := by
  obtain ⟨h1, h2⟩ := callInner_is_callWith cfg st e arr req hm
  obtain ⟨a, b⟩ := C09.callWith_suppressed_no_wait cfg.send st req (fun d => e.post cfg.std d) svc arr p hs hu hen hp
  rw [h1, a, h2, b]
  exact ⟨rfl, rfl⟩

/-- **C02 / C11 for the simple entry points**: what the method hands back for an in-time final positive reply is decided by the entry's interpretation of
    the reply data -/
theorem simple_call_final (cfg : CallCfg) (st : ClientState) (e : Entry) (req : Request) (svc : Service) (p0 : Bytes)
    (pend : List Frame) (fin : Frame) (extra : List Frame)
    (hm : e.makeRequest cfg.std = .ok req) (hsvc : req.service = some svc) (hp0 : req.getPayload none = .ok p0) (hreqspr : req.spr = false)
    (hspr : st.spr.enabled = false)
    (hp : ∀ f ∈ pend, classify (svc.sid + 0x40) f.payload = .pending) (hf : classify (svc.sid + 0x40) fin.payload = .positive)
    (ht : Spec.InTime cfg.send.requestTimeout (p2starEff cfg.send st) 0 (firstSingle cfg.send st) (pend.map (·.arrival)) fin.arrival) :
    Inner.shape (callInner cfg st e (pend ++ fin :: extra)).inner =
      (match e.post cfg.std (Response.fromPayload fin.payload).data with | .ok _ => .some | .error err => .exc err) := by
  rw [(callInner_is_callWith cfg st e _ req hm).1,
      C11.callWith_final cfg.send st req _ svc p0 pend fin extra hsvc hp0 hreqspr hspr hp hf ht]
  cases e.post cfg.std (Response.fromPayload fin.payload).data <;> rfl

/-! ### non-vacuity -/
example : Inner.shape (callInner { send := ⟨some 2000, 50, 500, false⟩ } {} (.ecuReset 1)
    [⟨10, [0x7F, 0x11, 0x78]⟩, ⟨200, [0x7F, 0x11, 0x33]⟩]).inner = .exc (.negative 0x33) := by decide +kernel
example : Inner.shape (callInner { send := ⟨some 2000, 50, 500, false⟩ } {} (.changeSession 3)
    [⟨10, [0x50, 0x03, 0x00, 0x32, 0x01, 0xF4]⟩]).inner = .some := by decide +kernel

end Uds.Props.CallUnify
