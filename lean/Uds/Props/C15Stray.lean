import Uds.Props.C15Hist
/-
  C15 / C13 over arbitrary histories: frames that arrive between calls are invisible.  Take any history and delete every stray frame from it: every call
  and every seed/key composite sends the same frames, waits the same windows, calls the security algorithm with the same seed and ends the same way.
  (In particular a stale seed reply is never the seed a key is computed from, and a stale positive reply never answers a later request.)
-/
namespace Uds.Props.C15
open Uds Uds.Model

def notStray : HOp → Bool
  | .stray _ => false
  | _ => true

/-- everything of the client but what sits in the receive queue -/
def SameButQueue (a b : HState) : Prop := a.cs = b.cs ∧ a.cfg = b.cfg ∧ a.sw = b.sw ∧ a.opened = b.opened

theorem hstep_queue_blind (a b : HState) (op : HOp) (hab : SameButQueue a b) (hk : notStray op = true) :
    (hstep a op).2 = (hstep b op).2 ∧ SameButQueue (hstep a op).1 (hstep b op).1 := by
  obtain ⟨h1, h2, h3, h4⟩ := hab
  cases op <;> simp [notStray] at hk <;> simp [hstep, SameButQueue, h1, h2, h3, h4]

theorem hstep_stray (a b : HState) (f : Bytes) (hab : SameButQueue a b) : SameButQueue (hstep a (.stray f)).1 b := by
  obtain ⟨h1, h2, h3, h4⟩ := hab
  exact ⟨h1, h2, h3, h4⟩

/-- **stray_frames_are_invisible** -/
theorem stray_frames_are_invisible (a b : HState) (ops : List HOp) (hab : SameButQueue a b) :
    (((ops.zip (hrun a ops).2).filter (fun p => notStray p.1)).map Prod.snd) = (hrun b (ops.filter notStray)).2 ∧
    SameButQueue (hrun a ops).1 (hrun b (ops.filter notStray)).1 := by
  induction ops generalizing a b with
  | nil => simp [hrun, hab]
  | cons op rest ih =>
    by_cases hk : notStray op = true
    · obtain ⟨ho, hs⟩ := hstep_queue_blind a b op hab hk
      obtain ⟨i1, i2⟩ := ih (hstep a op).1 (hstep b op).1 hs
      simp only [hrun, List.filter_cons, hk, if_true, List.zip_cons_cons, List.map_cons]
      exact ⟨by rw [ho, i1], i2⟩
    · have : ∃ f, op = .stray f := by cases op <;> simp [notStray] at hk; exact ⟨_, rfl⟩
      obtain ⟨f, rfl⟩ := this
      obtain ⟨i1, i2⟩ := ih (hstep a (.stray f)).1 b (hstep_stray a b f hab)
      simp only [hrun, List.filter_cons, hk, List.zip_cons_cons]
      simp only [Bool.false_eq_true, if_false]
      exact ⟨i1, i2⟩

/-! non-vacuity: a stale seed reply and a stale key acknowledgement between the calls change nothing: the seed request is answered negatively, no key is sent -/
example : ((hrun { cfg := { send := ⟨some 2000, 100, 300, false⟩ } }
    [.call .testerPresent [⟨1, [0x7E, 0x00]⟩], .stray [0x67, 0x03, 0xAA, 0xBB], .stray [0x67, 0x04],
     .unlock 3 [] [⟨1, [0x7F, 0x27, 0x22]⟩] [⟨1, [0x67, 0x04]⟩]]).2.map (·.log)) =
    [[.flush, .send [0x3E, 0x00], .wait 0 100], [], [], [.flush, .send [0x27, 0x03], .wait 0 100]] := by decide +kernel

end Uds.Props.C15

namespace Uds.Props.C13
open Uds Uds.Model

/-- **a stale seed reply is never the seed a key is computed from**: delete every stray frame from a history — the security algorithm is called at the same
    steps with the same seeds and levels, and the same key frames go out -/
theorem stale_frames_never_seed (a b : HState) (ops : List HOp) (hab : C15.SameButQueue a b) :
    (((ops.zip (hrun a ops).2).filter (fun p => C15.notStray p.1)).map (fun p => (p.2.algoCalls, p.2.log))) =
      (hrun b (ops.filter C15.notStray)).2.map (fun o => (o.algoCalls, o.log)) := by
  have h := (C15.stray_frames_are_invisible a b ops hab).1
  have := congrArg (List.map (fun o : HOut => (o.algoCalls, o.log))) h
  rw [List.map_map] at this
  exact this

end Uds.Props.C13
