import Uds.Props.C02
import Uds.Props.C05
import Uds.Props.C01
/-
  C02 at call level: when the server's final reply is the well-formed encoding of given values and it arrives in time — after any number of
  response-pending replies that each arrive inside their window — the client method built on `callWith` *returns* those values.
  Composition of the wait-loop theorem of C05 (`final_delivered`), the frame theorems of C01 (the request has a payload) and the
  decode∘encode theorems of C02.
-/
namespace Uds.Props.C02
open Uds Uds.Model Uds.Props.C05 Uds.Spec

/-- the first window of a call without per-call timeout and the overall deadline -/
def firstSingle (cfg : SendCfg) (st : ClientState) : Nat :=
  match cfg.requestTimeout with | some o => min o (p2Eff cfg st) | none => p2Eff cfg st

/-- **any client method** (`callWith`), outside suppress blocks: if `pend` are response-pending replies of the request's service, `fin` is a valid
    positive response of that service whose data the method's interpretation accepts with value `v`, and every arrival is inside the window of
    the wait it answers (P2 capped by the overall timeout, then P2*), then the call returns `v` — whatever arrives afterwards. -/
theorem callWith_delivers {α : Type} (cfg : SendCfg) (st : ClientState) (req : Request) (post : Bytes → Py α) (svc : Service) (p0 : Bytes)
    (pend : List Frame) (fin : Frame) (extra : List Frame) (v : α)
    (hsvc : req.service = some svc) (hp0 : req.getPayload none = .ok p0) (hreqspr : req.spr = false) (hspr : st.spr.enabled = false)
    (hp : ∀ f ∈ pend, classify (svc.sid + 0x40) f.payload = .pending)
    (hf : classify (svc.sid + 0x40) fin.payload = .positive)
    (ht : Spec.InTime cfg.requestTimeout (p2starEff cfg st) 0 (firstSingle cfg st) (pend.map (·.arrival)) fin.arrival)
    (hv : post (Response.fromPayload fin.payload).data = .ok v) :
    callWith cfg st req post (pend ++ fin :: extra) = .ret (some v) := by
  unfold callWith sendRequest
  simp only [hsvc, hspr, Bool.false_and, Bool.false_eq_true, if_false, hp0, hreqspr, Bool.or_self]
  have hfd := final_delivered cfg.requestTimeout (p2starEff cfg st) cfg.hasCallback (svc.sid + 0x40) false pend fin extra 0
    (firstSingle cfg st) false (by intro h; cases h) hp (by rw [hf]; intro h; cases h) ht
  unfold firstSingle at hfd
  cases hrt : cfg.requestTimeout <;> simp only [hrt] at hfd ⊢ <;> rw [hfd] <;> simp only [finalOutcome, hf, Bool.false_eq_true, if_false, hv]

/-- a frame `rid :: d` with data is a valid positive response of the service whose response identifier is `rid`, and its data is `d` -/
theorem positive_frame (s : Service) (b : UInt8) (d : Bytes) (hb : b ≠ 0x7F) (hs : fromResponseId b.toNat = some s) (hd : d ≠ []) :
    classify (s.sid + 0x40) (b :: d) = .positive ∧ (Response.fromPayload (b :: d)).data = d := by
  have hb' : (b != 0x7F) = true := by simpa using hb
  have hl : ¬ ((b :: d).length < 2) := by
    cases d with
    | nil => exact absurd rfl hd
    | cons x xs => simp
  have hl2 : (b :: d).length > 1 := by omega
  unfold classify classifyResp Response.fromPayload
  simp only [hb', if_true, hs, hl, decide_false, Bool.false_and, Bool.false_eq_true, if_false, hl2, List.drop_succ_cons, List.drop_zero,
    Bool.not_true, bne_self_eq_false]
  exact ⟨trivial, trivial⟩

/-! ### the families -/

/-- **ReadDataByIdentifier at call level**: `read_data_by_identifier(dids)` returns exactly the records the server encoded, in order — after any
    number of in-time response-pending replies, whatever arrives afterwards -/
theorem rdbi_call_returns (cfg : SendCfg) (st : ClientState) (c : DidCfg) (tol : Bool) (dids : List Int) (req : Request)
    (l : List (Nat × Bytes)) (pend extra : List Frame) (t : Nat)
    (hm : rdbiMakeRequest (some c) dids = .ok req) (hd : dids.map Int.toNat = l.map (·.1)) (hok : DidsOk c tol l) (hnd : (l.map (·.1)).Nodup)
    (hne : encDids l ≠ []) (hspr : st.spr.enabled = false)
    (hp : ∀ f ∈ pend, classify 0x62 f.payload = .pending)
    (ht : Spec.InTime cfg.requestTimeout (p2starEff cfg st) 0 (firstSingle cfg st) (pend.map (·.arrival)) t) :
    callWith cfg st req (rdbiClient c tol (dids.map Int.toNat)) (pend ++ ⟨t, 0x62 :: encDids l⟩ :: extra) = .ret (some (.rdbi l)) := by
  have hp0 := (C01.rdbi_frame_decodes (some c) dids req {} hm).1
  obtain ⟨hcl, hdata⟩ := positive_frame ⟨"ReadDataByIdentifier", 0x22, false, true⟩ 0x62 (encDids l) (by decide) (by decide) hne
  unfold rdbiMakeRequest at hm
  simp only [bind_ok, C07.validateDidList_ok, pure_ok] at hm
  obtain ⟨ds, _, _, _, rfl⟩ := hm
  refine callWith_delivers cfg st _ _ ⟨"ReadDataByIdentifier", 0x22, false, true⟩ _ pend ⟨t, 0x62 :: encDids l⟩ extra (SData.rdbi l)
    (by simp [mkReq, C01.svc_rdbi]) hp0 rfl hspr hp hcl ht ?_
  show rdbiClient c tol (dids.map Int.toNat) (Response.fromPayload (0x62 :: encDids l)).data = _
  rw [hdata, hd]
  exact rdbi_roundtrip c tol l hok hnd

/-- **InputOutputControlByIdentifier at call level** (fixed-length codec): the call returns the identifier, the control parameter and exactly the
    codec's bytes the server sent -/
theorem io_call_returns (cfg : SendCfg) (st : ClientState) (c : IoCfg) (e : IoEntry) (tol : Bool) (did cp : Int) (values : Option Bytes)
    (masks : Option MaskArg) (req : Request) (n : Nat) (v : Bytes) (pend extra : List Frame) (t : Nat)
    (hm : ioMakeRequest c did (some cp) values masks = .ok req)
    (hf : fetchIoEntry c did.toNat = .ok e) (hn : e.codecLen = some n) (hv : v.length = n) (hspr : st.spr.enabled = false)
    (hp : ∀ f ∈ pend, classify 0x6F f.payload = .pending)
    (ht : Spec.InTime cfg.requestTimeout (p2starEff cfg st) 0 (firstSingle cfg st) (pend.map (·.arrival)) t) :
    callWith cfg st req (ioClient c did.toNat (some cp.toNat) tol)
      (pend ++ ⟨t, 0x6F :: (toBE 2 did.toNat ++ [UInt8.ofNat cp.toNat] ++ v)⟩ :: extra) = .ret (some (.io did.toNat (some cp.toNat) (some v))) := by
  obtain ⟨e', m, _, _, hp0, _, hdid, hcp⟩ := C01.io_frame_decodes c did (some cp) values masks req hm
  obtain ⟨hcp1, hcp2⟩ := hcp cp rfl
  have hne : toBE 2 did.toNat ++ [UInt8.ofNat cp.toNat] ++ v ≠ [] := by simp
  obtain ⟨hcl, hdata⟩ := positive_frame ⟨"InputOutputControlByIdentifier", 0x2F, false, true⟩ 0x6F _ (by decide) (by decide) hne
  have hdlt : did.toNat < 65536 := by
    unfold ioMakeRequest at hm
    simp only [bind_ok, validateInt_ok, guardPy_ok, pure_ok] at hm
    obtain ⟨_, ⟨d1, d2⟩, _⟩ := hm
    omega
  unfold ioMakeRequest at hm
  simp only [bind_ok, validateInt_ok, guardPy_ok, pure_ok] at hm
  obtain ⟨_, _, _, _, _, _, e2, _, c2, _, v2, _, m2, _, rfl⟩ := hm
  refine callWith_delivers cfg st _ _ ⟨"InputOutputControlByIdentifier", 0x2F, false, true⟩ _ pend _ extra _
    (by simp [mkReq, C01.svc_io]) hp0 rfl hspr hp hcl ht ?_
  show ioClient c did.toNat (some cp.toNat) tol (Response.fromPayload (0x6F :: _)).data = _
  rw [hdata]
  exact io_roundtrip c e did.toNat cp.toNat n tol v hdlt (by omega) hf hn hv

/-- **RequestDownload / RequestUpload at call level**: the call returns the maximum block length the server encoded on `w` bytes (1..8) -/
theorem xfer_call_returns (cfg : SendCfg) (st : ClientState) (up : Bool) (ml : MemLoc) (wire : Bytes) (dfi : Nat) (hd : dfi < 256) (req : Request)
    (w v : Nat) (hw : 1 ≤ w ∧ w ≤ 8) (hv : v < 256 ^ w) (pend extra : List Frame) (t : Nat)
    (hwire : ml.wire = .ok wire) (hm : requestXferMakeRequest up ml dfi = .ok req) (hspr : st.spr.enabled = false)
    (hp : ∀ f ∈ pend, classify (if up then 0x75 else 0x74) f.payload = .pending)
    (ht : Spec.InTime cfg.requestTimeout (p2starEff cfg st) 0 (firstSingle cfg st) (pend.map (·.arrival)) t) :
    callWith cfg st req xferInterpret (pend ++ ⟨t, (if up then 0x75 else 0x74) :: Spec.encMaxLen w v⟩ :: extra) = .ret (some (.xfer v)) := by
  have hne : Spec.encMaxLen w v ≠ [] := by simp [Spec.encMaxLen]
  cases up with
  | false =>
    have hfr := C14.download_frame ml wire dfi hd hwire
    rw [hm] at hfr
    obtain ⟨hcl, hdata⟩ := positive_frame ⟨"RequestDownload", 0x34, false, true⟩ 0x74 _ (by decide) (by decide) hne
    simp only [requestXferMakeRequest, bind_ok, packB_ok, pure_ok] at hm
    obtain ⟨_, _, _, _, rfl⟩ := hm
    refine callWith_delivers cfg st _ _ ⟨"RequestDownload", 0x34, false, true⟩ _ pend _ extra _
      (by simp [fromRequestId, services]) (by simpa [bind, Except.bind] using hfr) rfl hspr hp hcl ht ?_
    show xferInterpret (Response.fromPayload (0x74 :: _)).data = _
    rw [hdata]; exact xfer_roundtrip w v hw hv
  | true =>
    have hfr := C14.upload_frame ml wire dfi hd hwire
    rw [hm] at hfr
    obtain ⟨hcl, hdata⟩ := positive_frame ⟨"RequestUpload", 0x35, false, true⟩ 0x75 _ (by decide) (by decide) hne
    simp only [requestXferMakeRequest, bind_ok, packB_ok, pure_ok] at hm
    obtain ⟨_, _, _, _, rfl⟩ := hm
    refine callWith_delivers cfg st _ _ ⟨"RequestUpload", 0x35, false, true⟩ _ pend _ extra _
      (by simp [fromRequestId, services]) (by simpa [bind, Except.bind] using hfr) rfl hspr hp hcl ht ?_
    show xferInterpret (Response.fromPayload (0x75 :: _)).data = _
    rw [hdata]; exact xfer_roundtrip w v hw hv

/-! ### non-vacuity: two response-pending replies, then the records -/
example : callWith ⟨some 2000, 50, 500, false⟩ {} (mkReq "ReadDataByIdentifier" none (some [0x12, 0x34]))
    (rdbiClient { entries := [(0x1234, some 2)] } true [0x1234])
    [⟨40, [0x7F, 0x22, 0x78]⟩, ⟨500, [0x7F, 0x22, 0x78]⟩, ⟨900, [0x62, 0x12, 0x34, 0xAB, 0xCD]⟩, ⟨901, [0x62]⟩]
    = .ret (some (.rdbi [(0x1234, [0xAB, 0xCD])])) := by decide +kernel

end Uds.Props.C02
