import Uds.Props.C07
import Uds.Spec.Request
import Uds.Props.C19
import Uds.Props.C14
import Uds.Props.C03
/-
  C01 — each request sent is the exact ISO-14229 encoding of the call's arguments.
  For every request builder: when `make_request` succeeds, the payload is `sid :: [sub-function] ++ parameters`
  in the layout of the standard, and the independent server-side decoder (`Spec.decodeRequest`) recovers the
  caller's arguments; inside a suppress-positive-response block only bit 7 of the sub-function byte changes.
-/
namespace Uds.Props.C01
open Uds Uds.Model Uds.Props.C07

/-! ### payload of a request object -/

theorem payload_nosf (name : String) (d : Bytes) (s : Service) (hs : svc name = s) (hu : s.useSubfn = false) (hsid : s.sid < 256) :
    (mkReq name none (some d)).getPayload = .ok (UInt8.ofNat s.sid :: d) := by
  simp [mkReq, Request.getPayload, hs, hu, packB, hsid, bind, Except.bind, pure, Except.pure]

theorem payload_sf (name : String) (sf : Nat) (d : Option Bytes) (s : Service) (hs : svc name = s) (hu : s.useSubfn = true)
    (hsid : s.sid < 256) (hsf : sf < 256) :
    (mkReq name (some sf) d).getPayload = .ok (UInt8.ofNat s.sid :: UInt8.ofNat sf :: d.getD []) := by
  simp [mkReq, Request.getPayload, hs, hu, packB, hsid, hsf, bind, Except.bind, pure, Except.pure]

/-- inside a suppress-positive-response block (`get_payload(suppress_positive_response=True)`): the same bytes with bit 7 of the
    sub-function byte set -/
theorem payload_sf_suppressed (name : String) (sf : Nat) (d : Option Bytes) (s : Service) (hs : svc name = s) (hu : s.useSubfn = true)
    (hsid : s.sid < 256) (hsf : sf < 128) :
    (mkReq name (some sf) d).getPayload (some true) = .ok (UInt8.ofNat s.sid :: UInt8.ofNat (sf + 128) :: d.getD []) := by
  have hall : ∀ x : Fin 128, setBit7 x.val = x.val + 128 := by decide
  have h : setBit7 sf = sf + 128 := hall ⟨sf, hsf⟩
  simp [mkReq, Request.getPayload, hs, hu, packB, hsid, h, show sf + 128 < 256 by omega, bind, Except.bind, pure, Except.pure]

theorem svc_wdbi : svc "WriteDataByIdentifier" = ⟨"WriteDataByIdentifier", 0x2E, false, true⟩ := by decide
theorem svc_rdbi : svc "ReadDataByIdentifier" = ⟨"ReadDataByIdentifier", 0x22, false, true⟩ := by decide
theorem svc_io : svc "InputOutputControlByIdentifier" = ⟨"InputOutputControlByIdentifier", 0x2F, false, true⟩ := by decide
theorem svc_ddd : svc "DynamicallyDefineDataIdentifier" = ⟨"DynamicallyDefineDataIdentifier", 0x2C, true, true⟩ := by decide
theorem svc_dtc : svc "ReadDTCInformation" = ⟨"ReadDTCInformation", 0x19, true, true⟩ := by decide
theorem svc_rft : svc "RequestFileTransfer" = ⟨"RequestFileTransfer", 0x38, false, true⟩ := by decide
theorem svc_auth : svc "Authentication" = ⟨"Authentication", 0x29, true, true⟩ := by decide

/-! ### WriteDataByIdentifier -/

theorem wdbi_frame_decodes (cfg : DidCfg) (did : Int) (v : Bytes) (r : Request) (view : Spec.SrvView)
    (h : wdbiMakeRequest cfg did v = .ok r) :
    r.getPayload = .ok (0x2E :: (toBE 2 did.toNat ++ v)) ∧
    Spec.decodeRequest view (0x2E :: (toBE 2 did.toNat ++ v)) = some ⟨0x2E, false, .wdbi did.toNat v⟩ ∧ (did.toNat : Int) = did := by
  unfold wdbiMakeRequest at h
  simp only [bind_ok, validateInt_ok, pure_ok, encodeVal_ok] at h
  obtain ⟨_, ⟨d1, d2⟩, c, _, l, _, b, ⟨_, rfl⟩, rfl⟩ := h
  refine ⟨payload_nosf _ _ _ svc_wdbi rfl (by decide), ?_, by omega⟩
  have hlt : did.toNat < 256 ^ 2 := by omega
  simp [Spec.decodeRequest, Spec.hasSubfn, Spec.decodeNoSubfn, Spec.pBE_toBE 2 _ _ hlt]

/-! ### ReadDataByIdentifier -/

theorem beList_length (ds : List Nat) : (beList 2 ds).length = 2 * ds.length := by
  induction ds with
  | nil => simp [beList]
  | cons d rest ih => simp [beList, ih]; omega

theorem pDidList_beList (ds : List Nat) (fuel : Nat) (hf : ds.length ≤ fuel) (h : ∀ d ∈ ds, d < 65536) :
    Spec.pDidList fuel (beList 2 ds) = some ds := by
  induction ds generalizing fuel with
  | nil => cases fuel <;> simp [Spec.pDidList, beList]
  | cons d rest ih =>
    cases fuel with
    | zero => simp at hf
    | succ fuel =>
      have hd : d < 256 ^ 2 := by have := h d (by simp); omega
      have hne : (beList 2 (d :: rest)).isEmpty = false := by
        simp [beList]
        intro h0; have := congrArg List.length h0; simp at this
      simp only [Spec.pDidList, hne, Bool.false_eq_true, if_false, beList, Spec.pBE_toBE 2 d _ hd]
      rw [ih fuel (by simp at hf; omega) (fun x hx => h x (by simp [hx]))]
      rfl

theorem rdbi_frame_decodes (cfg : Option DidCfg) (dids : List Int) (r : Request) (view : Spec.SrvView)
    (h : rdbiMakeRequest cfg dids = .ok r) :
    r.getPayload = .ok (0x22 :: beList 2 (dids.map Int.toNat)) ∧
    Spec.decodeRequest view (0x22 :: beList 2 (dids.map Int.toNat)) = some ⟨0x22, false, .rdbi (dids.map Int.toNat)⟩ ∧
    (∀ d ∈ dids, (d.toNat : Int) = d) := by
  unfold rdbiMakeRequest at h
  simp only [bind_ok, validateDidList_ok, pure_ok] at h
  obtain ⟨ds, ⟨hr, rfl⟩, _, _, rfl⟩ := h
  refine ⟨payload_nosf _ _ _ svc_rdbi rfl (by decide), ?_, fun d hd => by have := hr d hd; omega⟩
  have hall : ∀ d ∈ dids.map Int.toNat, d < 65536 := by
    intro d hd; simp only [List.mem_map] at hd; obtain ⟨x, hx, rfl⟩ := hd; have := hr x hx; omega
  have := pDidList_beList (dids.map Int.toNat) (beList 2 (dids.map Int.toNat)).length (by rw [beList_length]; omega) hall
  simp [Spec.decodeRequest, Spec.hasSubfn, Spec.decodeNoSubfn, this]

/-! ### InputOutputControlByIdentifier -/

/-- the control-enable mask bytes: all ones / zeros on `mask_size` bytes, or the OR of the selected bit masks big-endian on
    `mask_size` (else the smallest number of) bytes -/
theorem ioMask_layout (e : IoEntry) (masks : Option MaskArg) (m : Bytes) (h : ioMaskPart e masks = .ok m) :
    match masks with
    | none => m = []
    | some (.all b) => ∃ sz, e.maskSize = some sz ∧ m = List.replicate sz.toNat (if b then 0xFF else 0x00)
    | some (.named l) => ∃ cfg v, e.mask = some cfg ∧ maskOr cfg l = some v ∧
        m = toBE (match e.maskSize with | some sz => sz.toNat | none => byteLen v) v := by
  unfold ioMaskPart at h
  cases masks with
  | none => exact ((pure_ok _ _).1 h).symm
  | some a =>
    cases a with
    | all b =>
      simp only [ioMaskBytes] at h
      cases hs : e.maskSize with
      | none => simp [hs] at h
      | some sz => simp [hs] at h; exact ⟨sz, rfl, h.symm⟩
    | named l =>
      simp only [ioMaskBytes] at h
      cases hm : e.mask with
      | none => simp [hm] at h
      | some cfg =>
        simp only [hm, bind_ok, ioMaskValue_acc, toBytesBE_ok] at h
        obtain ⟨v, ⟨w, hw, hv⟩, _, rfl⟩ := h
        have : v = w := by rw [hv]; simp
        subst this
        exact ⟨cfg, v, rfl, hw, rfl⟩

/-- the optional inputOutputControlParameter byte -/
def cpBytes : Option Int → Bytes
  | some c => [UInt8.ofNat c.toNat]
  | none => []

theorem io_frame_decodes (cfg : IoCfg) (did : Int) (cp : Option Int) (values : Option Bytes) (masks : Option MaskArg) (r : Request)
    (h : ioMakeRequest cfg did cp values masks = .ok r) :
    ∃ e m, cfg.find did.toNat = some e ∧ ioMaskPart e masks = .ok m ∧
      r.getPayload = .ok (0x2F :: (toBE 2 did.toNat ++ cpBytes cp ++ values.getD [] ++ m)) ∧
      Spec.decodeRequest { ioHasParam := cp.isSome, ioStateLen := (values.getD []).length }
          (0x2F :: (toBE 2 did.toNat ++ cpBytes cp ++ values.getD [] ++ m))
        = some ⟨0x2F, false, .io did.toNat (cp.map Int.toNat) (values.getD []) m⟩ ∧
      (did.toNat : Int) = did ∧ (∀ c, cp = some c → (c.toNat : Int) = c ∧ c ≤ 3) := by
  unfold ioMakeRequest at h
  simp only [bind_ok, validateInt_ok, guardPy_ok, pure_ok] at h
  obtain ⟨_, ⟨d1, d2⟩, _, hcp, _, _, e, he, c, hc, v, hv, m, hm, rfl⟩ := h
  have hfind : cfg.find did.toNat = some e := by
    unfold fetchIoEntry at he
    cases hf : cfg.find did.toNat with
    | none => simp [hf] at he
    | some e' => simp only [hf, bind_ok, pure_ok] at he; obtain ⟨_, _, rfl⟩ := he; rfl
  have hcp' : ∀ x, cp = some x → 0 ≤ x ∧ x ≤ 3 := by
    intro x hx; subst hx
    unfold ioCheckParam at hcp
    by_cases hh : (x < 0 || x > 3) = true
    · simp [hh] at hcp
    · simp at hh; omega
  have hc' : c = cpBytes cp := by
    unfold ioParamBytes at hc
    cases cp with
    | none => exact ((pure_ok _ _).1 hc).symm
    | some x => simp only [packB_ok] at hc; exact hc.2
  have hv' : v = values.getD [] := by
    unfold ioValueBytes at hv
    cases values with
    | none => exact ((pure_ok _ _).1 hv).symm
    | some x => simp only [encodeVal_ok] at hv; simpa using hv.2
  subst hc' hv'
  refine ⟨e, m, hfind, hm, payload_nosf _ _ _ svc_io rfl (by decide), ?_, by omega, fun x hx => by have := hcp' x hx; omega⟩
  have hlt : did.toNat < 256 ^ 2 := by omega
  cases cp with
  | none =>
    simp only [Spec.decodeRequest, Spec.hasSubfn, Spec.decodeNoSubfn, List.append_assoc, cpBytes, List.nil_append, Option.isSome_none]
    simp [Spec.pBE_toBE 2 _ _ hlt, Spec.pTake_append]
  | some x =>
    simp only [Spec.decodeRequest, Spec.hasSubfn, Spec.decodeNoSubfn, List.append_assoc, cpBytes, Option.isSome_some]
    simp [Spec.pBE_toBE 2 _ _ hlt, Spec.pU8_cons, Spec.pTake_append]
    have := hcp' x rfl
    omega

/-! ### ReadDTCInformation -/

theorem pBE_packDtc (n : Nat) (r : Bytes) (h : n < 2 ^ 24) : Spec.pBE 3 (packDtc n ++ r) = some (n, r) := by
  obtain ⟨hl, hv⟩ := Uds.Props.C19.pack_dtc_roundtrip n h
  unfold Spec.pBE
  have h1 : ¬ (packDtc n ++ r).length < 3 := by simp [hl]
  have h2 : (packDtc n ++ r).take 3 = packDtc n := by
    rw [List.take_append_of_le_length (by omega)]; exact List.take_of_length_le (by omega)
  have h3 : (packDtc n ++ r).drop 3 = r := by
    rw [List.drop_append_of_le_length (by omega), List.drop_of_length_le (by omega)]; simp
  simp only [h1, if_false, h2, h3, hv]

/-- the value the caller passed for each ISO parameter name -/
def dtcArgByName (a : DtcArgs) (sev : Option Int) : String → Option Int
  | "DTCStatusMask" => a.statusMask
  | "DTCSeverityMask" => sev
  | "DTCMaskRecord" => a.dtc
  | "DTCSnapshotRecordNumber" => a.snapRec
  | "UserDefDTCSnapshotRecordNumber" => a.snapRec
  | "DTCStoredDataRecordNumber" => a.snapRec
  | "DTCExtDataRecordNumber" => a.extRec
  | "MemorySelection" => a.memSel
  | "FunctionalGroupIdentifier" => a.fgid
  | _ => none

/-- the caller's arguments in the order of the ISO request table of the sub-function -/
def dtcCanon (a : DtcArgs) (sev : Option Int) (sf : Nat) : List (String × Nat) :=
  ((Spec.dtcLayout sf).getD []).map fun p => (p.1, ((dtcArgByName a sev p.1).getD 0).toNat)

/-- the request group of the code, per sub-function, carries exactly the ISO layout of that sub-function -/
def groupLayout (sf : Nat) : DtcReqGroup → Option (List (String × Nat))
  | .noParam => some []
  | .statusMask => some [("DTCStatusMask", 1)]
  | .dtcSnap => some [("DTCMaskRecord", 3), ("DTCSnapshotRecordNumber", 1)]
  | .dtcSnapMem => some [("DTCMaskRecord", 3), ("UserDefDTCSnapshotRecordNumber", 1), ("MemorySelection", 1)]
  | .snapRec => some [("DTCStoredDataRecordNumber", 1)]
  | .dtcExt => some [("DTCMaskRecord", 3), ("DTCExtDataRecordNumber", 1)]
  | .dtcExtMem => some [("DTCMaskRecord", 3), ("DTCExtDataRecordNumber", 1), ("MemorySelection", 1)]
  | .sevStatus => some [("DTCSeverityMask", 1), ("DTCStatusMask", 1)]
  | .dtcOnly => some [("DTCMaskRecord", 3)]
  | .statusMem => some [("DTCStatusMask", 1), ("MemorySelection", 1)]
  | .extRecOnly => some [("DTCExtDataRecordNumber", 1)]
  | .wwhMask => some [("FunctionalGroupIdentifier", 1), ("DTCStatusMask", 1), ("DTCSeverityMask", 1)]
  | .wwhPerm => some [("FunctionalGroupIdentifier", 1)]
  | .other => if sf == 0x1A || sf == 0x56 then none else none

theorem layout_table : ∀ sf : Fin 128, dtcReqGroup sf.val ≠ .other → Spec.dtcLayout sf.val = groupLayout sf.val (dtcReqGroup sf.val) := by
  decide +kernel

theorem u8_lt {x : Int} {n : Nat} (h : (n : Int) = x) (hx : x ≤ 0xFF) : n < 256 := by omega

theorem dtc_frame_decodes (std : Nat) (a : DtcArgs) (r : Request) (view : Spec.SrvView)
    (h : dtcMakeRequest std a = .ok r) (hg : dtcReqGroup a.sf.toNat ≠ .other) :
    ∃ data sev, dtcSeverity a = .ok sev ∧
      r.getPayload = .ok (0x19 :: UInt8.ofNat a.sf.toNat :: data) ∧
      Spec.decodeRequest view (0x19 :: UInt8.ofNat a.sf.toNat :: data) = some ⟨0x19, false, .dtc a.sf.toNat (dtcCanon a sev a.sf.toNat)⟩ ∧
      (a.sf.toNat : Int) = a.sf := by
  unfold dtcMakeRequest at h
  simp only [bind_ok, checkSubfunctionValid_ok, pure_ok] at h
  obtain ⟨_, ⟨s1, s2, _, _⟩, sev, hsev, d, hd, rfl⟩ := h
  have hsf : a.sf.toNat < 128 := by omega
  have hlay := layout_table ⟨a.sf.toNat, hsf⟩ hg
  simp only at hlay
  refine ⟨d.getD [], sev, hsev, payload_sf _ _ _ _ svc_dtc rfl (by decide) (by omega), ?_, by omega⟩
  have hb : (UInt8.ofNat a.sf.toNat).toNat = a.sf.toNat := toNat_ofNat_lt (by omega)
  have hmod : a.sf.toNat % 128 = a.sf.toNat := Nat.mod_eq_of_lt hsf
  have hge : ¬ (a.sf.toNat ≥ 128) := by omega
  simp only [Spec.decodeRequest, Spec.hasSubfn, Spec.decodeSubfn, hb, hmod, hge, decide_false]
  simp only [List.contains_cons, List.contains_nil, show ((25 : UInt8).toNat == 16) = false by decide, show ((25 : UInt8).toNat == 17) = false by decide,
    show ((25 : UInt8).toNat == 39) = false by decide, show ((25 : UInt8).toNat == 40) = false by decide, show ((25 : UInt8).toNat == 62) = false by decide,
    show ((25 : UInt8).toNat == 131) = false by decide, show ((25 : UInt8).toNat == 133) = false by decide, show ((25 : UInt8).toNat == 135) = false by decide,
    show ((25 : UInt8).toNat == 49) = false by decide, show ((25 : UInt8).toNat == 44) = false by decide, show ((25 : UInt8).toNat == 25) = true by decide,
    Bool.false_or, Bool.or_true, Bool.true_or, Bool.or_false, if_true, Bool.false_eq_true, if_false]
  unfold dtcCanon
  rw [hlay]
  -- per request group
  generalize hgr : dtcReqGroup a.sf.toNat = g at hd hg ⊢
  cases g <;> simp only [dtcData, bind_ok, needInt_ok (Int.le_refl 0), pure_ok] at hd
  case other => exact absurd rfl hg
  case noParam => subst hd; simp [groupLayout, Spec.pFields]
  case statusMask =>
    obtain ⟨m, ⟨x, e1, _, u1, c1⟩, rfl⟩ := hd
    simp [groupLayout, Spec.pFields, Spec.pU8_cons, dtcArgByName, e1, ← c1, toNat_ofNat_lt (u8_lt c1 u1), show Spec.pBE 1 = Spec.pU8 from rfl]
  case dtcSnap =>
    obtain ⟨n1, ⟨x1, e1, _, u1, c1⟩, n2, ⟨x2, e2, _, u2, c2⟩, rfl⟩ := hd
    have l1 : n1 < 2 ^ 24 := by omega
    have l2 : (UInt8.ofNat n2).toNat = n2 := toNat_ofNat_lt (by omega)
    simp [groupLayout, Spec.pFields, Spec.pU8_cons, dtcArgByName, pBE_packDtc _ _ l1, l2, e1, ← c1, e2, ← c2, show Spec.pBE 1 = Spec.pU8 from rfl]
  case dtcSnapMem =>
    obtain ⟨n1, ⟨x1, e1, _, u1, c1⟩, n2, ⟨x2, e2, _, u2, c2⟩, n3, ⟨x3, e3, _, u3, c3⟩, rfl⟩ := hd
    have l1 : n1 < 2 ^ 24 := by omega
    have l2 : (UInt8.ofNat n2).toNat = n2 := toNat_ofNat_lt (by omega)
    have l3 : (UInt8.ofNat n3).toNat = n3 := toNat_ofNat_lt (by omega)
    simp [groupLayout, Spec.pFields, Spec.pU8_cons, dtcArgByName, pBE_packDtc _ _ l1, l2, l3, e1, ← c1, e2, ← c2, e3, ← c3, show Spec.pBE 1 = Spec.pU8 from rfl]
  case snapRec =>
    obtain ⟨n1, ⟨x1, e1, _, u1, c1⟩, rfl⟩ := hd
    have l1 : (UInt8.ofNat n1).toNat = n1 := toNat_ofNat_lt (by omega)
    simp [groupLayout, Spec.pFields, Spec.pU8_cons, dtcArgByName, l1, e1, ← c1, show Spec.pBE 1 = Spec.pU8 from rfl]
  case dtcExt =>
    obtain ⟨n1, ⟨x1, e1, _, u1, c1⟩, n2, ⟨x2, e2, _, u2, c2⟩, rfl⟩ := hd
    have l1 : n1 < 2 ^ 24 := by omega
    have l2 : (UInt8.ofNat n2).toNat = n2 := toNat_ofNat_lt (by omega)
    simp [groupLayout, Spec.pFields, Spec.pU8_cons, dtcArgByName, pBE_packDtc _ _ l1, l2, e1, ← c1, e2, ← c2, show Spec.pBE 1 = Spec.pU8 from rfl]
  case dtcExtMem =>
    obtain ⟨n1, ⟨x1, e1, _, u1, c1⟩, n2, ⟨x2, e2, _, u2, c2⟩, n3, ⟨x3, e3, _, u3, c3⟩, rfl⟩ := hd
    have l1 : n1 < 2 ^ 24 := by omega
    have l2 : (UInt8.ofNat n2).toNat = n2 := toNat_ofNat_lt (by omega)
    have l3 : (UInt8.ofNat n3).toNat = n3 := toNat_ofNat_lt (by omega)
    simp [groupLayout, Spec.pFields, Spec.pU8_cons, dtcArgByName, pBE_packDtc _ _ l1, l2, l3, e1, ← c1, e2, ← c2, e3, ← c3, show Spec.pBE 1 = Spec.pU8 from rfl]
  case sevStatus =>
    obtain ⟨n1, ⟨x1, e1, _, u1, c1⟩, n2, ⟨x2, e2, _, u2, c2⟩, rfl⟩ := hd
    have l1 : (UInt8.ofNat n1).toNat = n1 := toNat_ofNat_lt (by omega)
    have l2 : (UInt8.ofNat n2).toNat = n2 := toNat_ofNat_lt (by omega)
    simp [groupLayout, Spec.pFields, Spec.pU8_cons, dtcArgByName, l1, l2, e1, ← c1, e2, ← c2, show Spec.pBE 1 = Spec.pU8 from rfl]
  case dtcOnly =>
    obtain ⟨n1, ⟨x1, e1, _, u1, c1⟩, rfl⟩ := hd
    have l1 : n1 < 2 ^ 24 := by omega
    have h0 := pBE_packDtc n1 [] l1
    rw [List.append_nil] at h0
    simp [groupLayout, Spec.pFields, dtcArgByName, h0, e1, ← c1]
  case statusMem =>
    obtain ⟨n1, ⟨x1, e1, _, u1, c1⟩, n2, ⟨x2, e2, _, u2, c2⟩, rfl⟩ := hd
    have l1 : (UInt8.ofNat n1).toNat = n1 := toNat_ofNat_lt (by omega)
    have l2 : (UInt8.ofNat n2).toNat = n2 := toNat_ofNat_lt (by omega)
    simp [groupLayout, Spec.pFields, Spec.pU8_cons, dtcArgByName, l1, l2, e1, ← c1, e2, ← c2, show Spec.pBE 1 = Spec.pU8 from rfl]
  case extRecOnly =>
    obtain ⟨n1, ⟨x1, e1, _, u1, c1⟩, rfl⟩ := hd
    have l1 : (UInt8.ofNat n1).toNat = n1 := toNat_ofNat_lt (by omega)
    simp [groupLayout, Spec.pFields, Spec.pU8_cons, dtcArgByName, l1, e1, ← c1, show Spec.pBE 1 = Spec.pU8 from rfl]
  case wwhMask =>
    obtain ⟨n1, ⟨x1, e1, _, u1, c1⟩, n2, ⟨x2, e2, _, u2, c2⟩, n3, ⟨x3, e3, _, u3, c3⟩, rfl⟩ := hd
    have l1 : (UInt8.ofNat n1).toNat = n1 := toNat_ofNat_lt (by omega)
    have l2 : (UInt8.ofNat n2).toNat = n2 := toNat_ofNat_lt (by omega)
    have l3 : (UInt8.ofNat n3).toNat = n3 := toNat_ofNat_lt (by omega)
    simp [groupLayout, Spec.pFields, Spec.pU8_cons, dtcArgByName, l1, l2, l3, e1, ← c1, e2, ← c2, e3, ← c3, show Spec.pBE 1 = Spec.pU8 from rfl]
  case wwhPerm =>
    obtain ⟨n1, ⟨x1, e1, _, u1, c1⟩, rfl⟩ := hd
    have l1 : (UInt8.ofNat n1).toNat = n1 := toNat_ofNat_lt (by omega)
    simp [groupLayout, Spec.pFields, Spec.pU8_cons, dtcArgByName, l1, e1, ← c1, show Spec.pBE 1 = Spec.pU8 from rfl]

/-! ### RequestFileTransfer -/

/-- layout of the request (a lemma of `rft_frame_decodes` below; the name is kept from the time when the Spec round trip was not proved):
    `38 moop len16 path [dfi] [width uncompressed compressed]`, the DataFormatIdentifier defaulting to 0x00 when the mode takes one,
    both sizes on `width` bytes big-endian -/
theorem rft_layout_partial (moop : Int) (path : Bytes) (dfi : Option Nat) (fs : Option FilesizeArg) (r : Request)
    (h : rftMakeRequest moop path dfi fs = .ok r) :
    ∃ (x : Option (Int ⊕ FilesizeObj)) (f : Option FilesizeObj) (z : Bytes),
      rftBuildArg fs = .ok x ∧ rftSize moop x = .ok f ∧ rftSizeBytes f = .ok z ∧
      (f = none → z = []) ∧
      (∀ g, f = some g → ∀ u c, g.uncompressed = some u → g.compressed = some c →
          z = [UInt8.ofNat g.width] ++ toBE g.width u.toNat ++ toBE g.width c.toNat ∧ u.toNat < 256 ^ g.width ∧ c.toNat < 256 ^ g.width ∧ g.width < 256) ∧
      r.getPayload = .ok (0x38 :: ([UInt8.ofNat moop.toNat] ++ toBE 2 path.length ++ path ++
          (if rftUsesDfi moop then [UInt8.ofNat (dfi.getD 0)] else []) ++ z)) ∧
      (1 ≤ moop ∧ moop ≤ 6) ∧ (1 ≤ path.length ∧ path.length ≤ 0xFFFF) ∧ (rftUsesDfi moop = true → dfi.getD 0 < 256) := by
  have hdom := rft_accepted_in_domain moop path dfi fs ⟨r, h⟩
  obtain ⟨hm, hp, hdfi, _, _⟩ := hdom
  unfold rftMakeRequest at h
  simp only [bind_ok, guardPy_ok, pure_ok] at h
  obtain ⟨x, hx, _, _, _, _, _, _, dv, hd1, f, hf1, db, hd2, sb, hf2, rfl⟩ := h
  have hdb : db = (if rftUsesDfi moop then [UInt8.ofNat (dfi.getD 0)] else []) ∧ (rftUsesDfi moop = true → dfi.getD 0 < 256) := by
    unfold rftDfi at hd1
    by_cases hu : rftUsesDfi moop = true
    · simp only [hu, if_true, pure_ok] at hd1 ⊢; subst hd1
      simp only [rftDfiBytes, packB_ok] at hd2
      exact ⟨hd2.2, fun _ => hd2.1⟩
    · simp only [hu, Bool.false_eq_true, if_false] at hd1 hdfi ⊢
      subst hdfi; simp at hd1; subst hd1
      simp only [rftDfiBytes, pure_ok] at hd2
      exact ⟨hd2.symm, by simp⟩
  obtain ⟨hdb1, hdlt⟩ := hdb
  subst hdb1
  refine ⟨x, f, sb, hx, hf1, hf2, ?_, ?_, payload_nosf _ _ _ svc_rft rfl (by decide), hm, hp, hdlt⟩
  · intro hf; subst hf; simp only [rftSizeBytes, pure_ok] at hf2; exact hf2.symm
  · intro g hg u c hu hc; subst hg
    simp only [rftSizeBytes, bind_ok, toBytesBE_ok, pure_ok, hu, hc, sizeBytes] at hf2
    obtain ⟨wb, ⟨hw, rfl⟩, ub, ⟨hult, rfl⟩, cb, ⟨hclt, rfl⟩, rfl⟩ := hf2
    have hw' : g.width < 256 := by simpa using hw
    refine ⟨by simp [toBE, Nat.mod_eq_of_lt hw'], hult, hclt, hw'⟩

theorem decodeNoSubfn_rft (view : Spec.SrvView) (p : Bytes) : Spec.decodeNoSubfn view 0x38 p = Spec.decodeRft p := by
  simp [Spec.decodeNoSubfn]

theorem rftNormalize_both (x : Int ⊕ FilesizeObj) (f : FilesizeObj) (h : rftNormalizeSize x = .ok f) :
    ∃ u c, f.uncompressed = some u ∧ f.compressed = some c := by
  simp only [rftNormalizeSize, bind_ok, guardPy_ok] at h
  obtain ⟨f0, _, _, hu, hd⟩ := h
  cases hu0 : f0.uncompressed with
  | none => simp [hu0] at hu
  | some u =>
    unfold rftDefaultCompressed at hd
    cases hc0 : f0.compressed with
    | none =>
      simp only [hc0, Option.isNone_none, if_true, FilesizeObj.new, bind_ok, pure_ok, hu0] at hd
      obtain ⟨_, _, _, _, _, _, _, _, rfl⟩ := hd
      exact ⟨u, u, rfl, rfl⟩
    | some c =>
      simp only [hc0, Option.isNone_some, Bool.false_eq_true, if_false, pure_ok] at hd
      subst hd
      exact ⟨u, c, hu0, hc0⟩

theorem rftSize_cases (moop : Int) (x : Option (Int ⊕ FilesizeObj)) (f : Option FilesizeObj) (h : rftSize moop x = .ok f) :
    (rftUsesSize moop = true ∧ ∃ g u c, f = some g ∧ g.uncompressed = some u ∧ g.compressed = some c) ∨ (rftUsesSize moop = false ∧ f = none) := by
  unfold rftSize at h
  by_cases hu : rftUsesSize moop = true
  · left
    simp only [hu, if_true] at h
    cases x with
    | none => simp at h
    | some y =>
      simp only [bind_ok, pure_ok] at h
      obtain ⟨g, hg, rfl⟩ := h
      obtain ⟨u, c, h1, h2⟩ := rftNormalize_both y g hg
      exact ⟨hu, g, u, c, rfl, h1, h2⟩
  · right
    simp only [hu, Bool.false_eq_true, if_false] at h
    split at h
    · simp at h
    · simp only [pure_ok] at h; exact ⟨by simpa using hu, h.symm⟩

/-- what the independent decoder must find in a RequestFileTransfer frame -/
def rftCanon (moop : Int) (path : Bytes) (dfi : Option Nat) (f : Option FilesizeObj) : Spec.ReqVal :=
  .fileTransfer moop.toNat path (if rftUsesDfi moop then some (dfi.getD 0) else none) (f.map (·.width))
    (f.bind (fun g => g.uncompressed.map Int.toNat)) (f.bind (fun g => g.compressed.map Int.toNat))

/-- **RequestFileTransfer**: every accepted call transmits a frame that the independent ISO decoder reads back as the mode of operation, the
    path, the DataFormatIdentifier (default 0x00 when the mode takes one) and, for the modes that carry sizes, the width and both sizes -/
theorem rft_frame_decodes (moop : Int) (path : Bytes) (dfi : Option Nat) (fs : Option FilesizeArg) (r : Request) (view : Spec.SrvView)
    (h : rftMakeRequest moop path dfi fs = .ok r) :
    ∃ frame x f, r.getPayload = .ok frame ∧ rftBuildArg fs = .ok x ∧ rftSize moop x = .ok f ∧
      Spec.decodeRequest view frame = some ⟨0x38, false, rftCanon moop path dfi f⟩ := by
  obtain ⟨x, f, z, hx, hf, hz, hnone, hsome, hpay, hm, hp, hdlt⟩ := rft_layout_partial moop path dfi fs r h
  refine ⟨_, x, f, hpay, hx, hf, ?_⟩
  have hmo : (UInt8.ofNat moop.toNat).toNat = moop.toNat := toNat_ofNat_lt (by omega)
  have hlen : path.length < 65536 := by omega
  simp only [Spec.decodeRequest, show Spec.hasSubfn (0x38 : UInt8).toNat = false by decide, Bool.false_eq_true, if_false,
    show (0x38 : UInt8).toNat = 0x38 by rfl, decodeNoSubfn_rft]
  have hstep1 : Spec.decodeRft ([UInt8.ofNat moop.toNat] ++ toBE 2 path.length ++ path ++ (if rftUsesDfi moop = true then [UInt8.ofNat (dfi.getD 0)] else []) ++ z) =
      some (rftCanon moop path dfi f) := by
    unfold Spec.decodeRft
    have e1 : Spec.pU8 ([UInt8.ofNat moop.toNat] ++ toBE 2 path.length ++ path ++ (if rftUsesDfi moop = true then [UInt8.ofNat (dfi.getD 0)] else []) ++ z) =
        some (moop.toNat, toBE 2 path.length ++ path ++ ((if rftUsesDfi moop = true then [UInt8.ofNat (dfi.getD 0)] else []) ++ z)) := by
      simp only [List.cons_append, List.nil_append, List.append_assoc, Spec.pU8_cons, hmo]
    have e2 : Spec.pLen16 (toBE 2 path.length ++ path ++ ((if rftUsesDfi moop = true then [UInt8.ofNat (dfi.getD 0)] else []) ++ z)) =
        some (path, (if rftUsesDfi moop = true then [UInt8.ofNat (dfi.getD 0)] else []) ++ z) := Spec.pLen16_append path _ hlen
    simp only [e1, e2]
    rcases rftSize_cases moop x f hf with ⟨hus, g, u, c, rfl, hu, hc⟩ | ⟨hus, rfl⟩
    · -- modes 1, 3, 6: dfi, width, both sizes
      have hud : rftUsesDfi moop = true := by
        simp only [rftUsesSize, rftUsesDfi, Bool.or_eq_true, beq_iff_eq] at hus ⊢; omega
      obtain ⟨hzz, hult, hclt, hw⟩ := hsome g rfl u c hu hc
      have hd := hdlt hud
      have hdfi : (UInt8.ofNat (dfi.getD 0)).toNat = dfi.getD 0 := toNat_ofNat_lt hd
      have hwn : (UInt8.ofNat g.width).toNat = g.width := toNat_ofNat_lt hw
      have b1 : (moop.toNat == 1 || moop.toNat == 3 || moop.toNat == 4 || moop.toNat == 6) = true := by
        simp only [rftUsesDfi, Bool.or_eq_true, beq_iff_eq] at hud ⊢; omega
      have b2 : (moop.toNat == 1 || moop.toNat == 3 || moop.toNat == 6) = true := by
        simp only [rftUsesSize, Bool.or_eq_true, beq_iff_eq] at hus ⊢; omega
      subst hzz
      simp only [hud, if_true, b1, b2, Bool.not_true, Bool.false_eq_true, if_false, List.cons_append, List.nil_append, List.append_assoc, Spec.pU8_cons, hdfi, hwn]
      rw [Spec.pBE_toBE g.width u.toNat _ hult]
      simp only
      have : toBE g.width c.toNat = toBE g.width c.toNat ++ [] := by simp
      rw [this, Spec.pBE_toBE g.width c.toNat [] hclt]
      simp [rftCanon, hud, hu, hc]
    · have hz0 := hnone rfl
      subst hz0
      by_cases hud : rftUsesDfi moop = true
      · have hd := hdlt hud
        have hdfi : (UInt8.ofNat (dfi.getD 0)).toNat = dfi.getD 0 := toNat_ofNat_lt hd
        have b1 : (moop.toNat == 1 || moop.toNat == 3 || moop.toNat == 4 || moop.toNat == 6) = true := by
          simp only [rftUsesDfi, Bool.or_eq_true, beq_iff_eq] at hud ⊢; omega
        have b2 : (moop.toNat == 1 || moop.toNat == 3 || moop.toNat == 6) = false := by
          simp only [rftUsesSize, Bool.or_eq_false_iff, beq_eq_false_iff_ne] at hus ⊢; omega
        simp [hud, b1, b2, Spec.pU8_cons, hdfi, rftCanon]
      · have b1 : (moop.toNat == 1 || moop.toNat == 3 || moop.toNat == 4 || moop.toNat == 6) = false := by
          simp only [rftUsesDfi, Bool.not_eq_true, Bool.or_eq_false_iff, beq_eq_false_iff_ne] at hud ⊢; omega
        simp [hud, b1, rftCanon]
  rw [hstep1]; rfl


/-! ### Authentication -/

theorem lenPrefixed_eq (p : Option Bytes) (b : Bytes) (h : lenPrefixed p = .ok b) :
    b = toBE 2 (p.getD []).length ++ p.getD [] ∧ (p.getD []).length < 65536 := by
  unfold lenPrefixed at h
  cases p with
  | none => simp at h; subst h; simp [toBE]
  | some x =>
    by_cases hx : x.length > 0xFFFF
    · simp [hx] at h
    · simp [hx] at h; subst h; simp; omega

theorem pLenFields_step (n : String) (ns : List String) (x r : Bytes) (h : x.length < 65536) :
    Spec.pLenFields (n :: ns) (toBE 2 x.length ++ x ++ r) = (Spec.pLenFields ns r).map ((n, x) :: ·) := by
  simp only [Spec.pLenFields]; rw [Spec.pLen16_append x r h]

theorem pLenFields_last (n : String) (x : Bytes) (h : x.length < 65536) :
    Spec.pLenFields [n] (toBE 2 x.length ++ x) = some [(n, x)] := by
  have := pLenFields_step n [] x [] h
  simp only [List.append_nil] at this
  rw [this]; simp [Spec.pLenFields]

/-- what the Spec decoder must find for each task: the parameters of the ISO request table, absent byte strings as empty -/
def authCanon (a : AuthArgs) : Nat → List (String × Bytes)
  | 0 => []
  | 8 => []
  | 1 => [("communicationConfiguration", [UInt8.ofNat (a.commConf.getD 0).toNat]), ("certificateClient", a.certClient.getD []), ("challengeClient", a.challengeClient.getD [])]
  | 2 => [("communicationConfiguration", [UInt8.ofNat (a.commConf.getD 0).toNat]), ("certificateClient", a.certClient.getD []), ("challengeClient", a.challengeClient.getD [])]
  | 3 => [("proofOfOwnershipClient", a.pownClient.getD []), ("ephemeralPublicKeyClient", a.ephKeyClient.getD [])]
  | 4 => [("certificateEvaluationId", toBE 2 (a.certEvalId.getD 0).toNat), ("certificateData", a.certData.getD [])]
  | 5 => [("communicationConfiguration", [UInt8.ofNat (a.commConf.getD 0).toNat]), ("algorithmIndicator", a.algo.getD [])]
  | _ => [("algorithmIndicator", a.algo.getD []), ("proofOfOwnershipClient", a.pownClient.getD []), ("challengeClient", a.challengeClient.getD []),
          ("additionalParameter", a.addParam.getD [])]

theorem needAlgo_eq (p : Option Bytes) (b : Bytes) (h : needAlgo p = .ok b) : b = p.getD [] ∧ b.length = 16 := by
  unfold needAlgo at h
  cases p with
  | none => simp at h
  | some x =>
    by_cases hx : x.length = 16
    · simp [hx] at h; subst h; exact ⟨rfl, hx⟩
    · simp [hx] at h

theorem auth_frame_decodes (a : AuthArgs) (r : Request) (view : Spec.SrvView) (h : authMakeRequest a = .ok r) :
    ∃ data, r.getPayload = .ok (0x29 :: UInt8.ofNat a.task.toNat :: data) ∧
      Spec.decodeRequest view (0x29 :: UInt8.ofNat a.task.toNat :: data) = some ⟨0x29, false, .auth a.task.toNat (authCanon a a.task.toNat)⟩ ∧
      (a.task.toNat : Int) = a.task := by
  unfold authMakeRequest at h
  simp only [bind_ok, validateInt_ok, pure_ok] at h
  obtain ⟨_, ⟨t1, t2⟩, d, hd, rfl⟩ := h
  refine ⟨d.getD [], payload_sf _ _ _ _ svc_auth rfl (by decide) (by omega), ?_, by omega⟩
  have hcases : a.task.toNat = 0 ∨ a.task.toNat = 8 ∨ a.task.toNat = 1 ∨ a.task.toNat = 2 ∨ a.task.toNat = 3 ∨ a.task.toNat = 4 ∨ a.task.toNat = 5 ∨
      a.task.toNat = 6 ∨ a.task.toNat = 7 := by omega
  rcases hcases with ht | ht | ht | ht | ht | ht | ht | ht | ht <;> rw [ht] at hd ⊢ <;>
    simp only [authData, bind_ok, needInt_ok (Int.le_refl 0), pure_ok] at hd
  · subst hd; simp [Spec.decodeRequest, Spec.hasSubfn, Spec.decodeSubfn, authCanon]
  · subst hd; simp [Spec.decodeRequest, Spec.hasSubfn, Spec.decodeSubfn, authCanon]
  · obtain ⟨cc, ⟨x, e, _, u, c⟩, xb, hx, yb, hy, rfl⟩ := hd
    obtain ⟨rfl, lx⟩ := lenPrefixed_eq _ _ hx
    obtain ⟨rfl, ly⟩ := lenPrefixed_eq _ _ hy
    have hcc : cc < 256 := by omega
    simp only [Spec.decodeRequest, Spec.hasSubfn, Spec.decodeSubfn, authCanon, Option.getD_some, List.append_assoc, List.cons_append, List.nil_append]
    have h1 := pLenFields_step "certificateClient" ["challengeClient"] (a.certClient.getD []) (toBE 2 (a.challengeClient.getD []).length ++ a.challengeClient.getD []) lx
    simp only [List.append_assoc] at h1
    simp [Spec.pTake, h1, pLenFields_last _ _ ly, e, ← c]
  · obtain ⟨cc, ⟨x, e, _, u, c⟩, xb, hx, yb, hy, rfl⟩ := hd
    obtain ⟨rfl, lx⟩ := lenPrefixed_eq _ _ hx
    obtain ⟨rfl, ly⟩ := lenPrefixed_eq _ _ hy
    simp only [Spec.decodeRequest, Spec.hasSubfn, Spec.decodeSubfn, authCanon, Option.getD_some, List.append_assoc, List.cons_append, List.nil_append]
    have h1 := pLenFields_step "certificateClient" ["challengeClient"] (a.certClient.getD []) (toBE 2 (a.challengeClient.getD []).length ++ a.challengeClient.getD []) lx
    simp only [List.append_assoc] at h1
    simp [Spec.pTake, h1, pLenFields_last _ _ ly, e, ← c]
  · obtain ⟨xb, hx, yb, hy, rfl⟩ := hd
    obtain ⟨rfl, lx⟩ := lenPrefixed_eq _ _ hx
    obtain ⟨rfl, ly⟩ := lenPrefixed_eq _ _ hy
    simp only [Spec.decodeRequest, Spec.hasSubfn, Spec.decodeSubfn, authCanon, Option.getD_some, List.append_assoc, List.cons_append, List.nil_append]
    have h1 := pLenFields_step "proofOfOwnershipClient" ["ephemeralPublicKeyClient"] (a.pownClient.getD []) (toBE 2 (a.ephKeyClient.getD []).length ++ a.ephKeyClient.getD []) lx
    simp only [List.append_assoc] at h1
    simp [h1, pLenFields_last _ _ ly]
  · obtain ⟨id, ⟨x, e, _, u, c⟩, xb, hx, rfl⟩ := hd
    obtain ⟨rfl, lx⟩ := lenPrefixed_eq _ _ hx
    simp only [Spec.decodeRequest, Spec.hasSubfn, Spec.decodeSubfn, authCanon, Option.getD_some, List.append_assoc, List.cons_append, List.nil_append]
    have ht2 : Spec.pTake 2 (toBE 2 id ++ (toBE 2 (a.certData.getD []).length ++ a.certData.getD [])) = some (toBE 2 id, toBE 2 (a.certData.getD []).length ++ a.certData.getD []) :=
      Spec.pTake_append' _ _ (by simp)
    simp [ht2, pLenFields_last _ _ lx, e, ← c]
  · obtain ⟨cc, ⟨x, e, _, u, c⟩, al, hal, rfl⟩ := hd
    obtain ⟨rfl, l16⟩ := needAlgo_eq _ _ hal
    simp only [Spec.decodeRequest, Spec.hasSubfn, Spec.decodeSubfn, authCanon, Option.getD_some, List.append_assoc, List.cons_append, List.nil_append]
    have ht : Spec.pTake 16 (a.algo.getD []) = some (a.algo.getD [], []) := by
      have := Spec.pTake_append' (a.algo.getD []) [] l16; simpa using this
    simp [Spec.pTake, ht, e, ← c, l16, List.take_of_length_le (show (a.algo.getD []).length ≤ 16 by omega)]
  all_goals
    obtain ⟨al, hal, xb, hx, yb, hy, zb, hz, rfl⟩ := hd
    obtain ⟨rfl, l16⟩ := needAlgo_eq _ _ hal
    obtain ⟨rfl, lx⟩ := lenPrefixed_eq _ _ hx
    obtain ⟨rfl, ly⟩ := lenPrefixed_eq _ _ hy
    obtain ⟨rfl, lz⟩ := lenPrefixed_eq _ _ hz
    simp only [Spec.decodeRequest, Spec.hasSubfn, Spec.decodeSubfn, authCanon, Option.getD_some, List.append_assoc, List.cons_append, List.nil_append]
    have ht := Spec.pTake_append' (a.algo.getD []) (toBE 2 (a.pownClient.getD []).length ++ (a.pownClient.getD [] ++ (toBE 2 (a.challengeClient.getD []).length ++ (a.challengeClient.getD [] ++ (toBE 2 (a.addParam.getD []).length ++ a.addParam.getD []))))) l16
    have h1 := pLenFields_step "proofOfOwnershipClient" ["challengeClient", "additionalParameter"] (a.pownClient.getD []) (toBE 2 (a.challengeClient.getD []).length ++ (a.challengeClient.getD [] ++ (toBE 2 (a.addParam.getD []).length ++ a.addParam.getD []))) lx
    have h2 := pLenFields_step "challengeClient" ["additionalParameter"] (a.challengeClient.getD []) (toBE 2 (a.addParam.getD []).length ++ a.addParam.getD []) ly
    simp only [List.append_assoc] at h1 h2
    simp [ht, h1, h2, pLenFields_last _ _ lz]

/-! ### memory-addressed requests (widths: `Uds.Props.C14`) -/

theorem mem_requests_decode (ml : MemLoc) (w data : Bytes) (dfi : Nat) (view : Spec.SrvView)
    (hA : C14.Width ml.alfidA) (hM : C14.Width ml.alfidM) (h : ml.wire = .ok w) (hd : dfi < 256) :
    Spec.decodeRequest view (0x23 :: w) = some ⟨0x23, false, .readMem (ml.alfidA / 8) (ml.alfidM / 8) ml.address.toNat ml.size.toNat⟩ ∧
    Spec.decodeRequest view (0x3D :: (w ++ data)) = some ⟨0x3D, false, .writeMem (ml.alfidA / 8) (ml.alfidM / 8) ml.address.toNat ml.size.toNat data⟩ ∧
    Spec.decodeRequest view (0x34 :: UInt8.ofNat dfi :: w) = some ⟨0x34, false, .download dfi (ml.alfidA / 8) (ml.alfidM / 8) ml.address.toNat ml.size.toNat⟩ ∧
    Spec.decodeRequest view (0x35 :: UInt8.ofNat dfi :: w) = some ⟨0x35, false, .upload dfi (ml.alfidA / 8) (ml.alfidM / 8) ml.address.toNat ml.size.toNat⟩ := by
  have h0 := (C14.wire_decodes ml w [] hA hM h).1
  have h1 := (C14.wire_decodes ml w data hA hM h).1
  rw [List.append_nil] at h0
  refine ⟨?_, ?_, ?_, ?_⟩
  · simp [Spec.decodeRequest, Spec.hasSubfn, Spec.decodeNoSubfn, Spec.memVal, h0]
  · simp [Spec.decodeRequest, Spec.hasSubfn, Spec.decodeNoSubfn, Spec.memVal, h1]
  · simp [Spec.decodeRequest, Spec.hasSubfn, Spec.decodeNoSubfn, Spec.memVal, h0, Spec.pU8_cons, toNat_ofNat_lt hd]
  · simp [Spec.decodeRequest, Spec.hasSubfn, Spec.decodeNoSubfn, Spec.memVal, h0, Spec.pU8_cons, toNat_ofNat_lt hd]

/-! ### DynamicallyDefineDataIdentifier: clear -/

theorem dddClear_frame_decodes (did : Option Int) (r : Request) (view : Spec.SrvView) (h : dddClearMakeRequest did = .ok r) :
    ∃ data, r.getPayload = .ok (0x2C :: 3 :: data) ∧
      Spec.decodeRequest view (0x2C :: 3 :: data) = some ⟨0x2C, false, .dddClear (did.map Int.toNat)⟩ := by
  unfold dddClearMakeRequest at h
  cases did with
  | none =>
    simp only [pure_ok] at h; subst h
    exact ⟨[], payload_sf _ _ _ _ svc_ddd rfl (by decide) (by decide), by simp [Spec.decodeRequest, Spec.hasSubfn, Spec.decodeSubfn]⟩
  | some d =>
    simp only [bind_ok, validateInt_ok, pure_ok] at h
    obtain ⟨_, ⟨d1, d2⟩, rfl⟩ := h
    refine ⟨toBE 2 d.toNat, payload_sf _ _ _ _ svc_ddd rfl (by decide) (by decide), ?_⟩
    have hlt : d.toNat < 256 ^ 2 := by omega
    have := Spec.pBE_toBE 2 d.toNat [] hlt
    rw [List.append_nil] at this
    have hne : (toBE 2 d.toNat).isEmpty = false := by simp [toBE]
    simp [Spec.decodeRequest, Spec.hasSubfn, Spec.decodeSubfn, this, hne]

/-! ### the simple services -/

/-- ISO rendering of the arguments of a simple entry point -/
def simpleCanon : Entry → Option Spec.ReqVal
  | .changeSession n => some (.session n.toNat)
  | .ecuReset t => some (.reset t.toNat)
  | .testerPresent => some (.testerPresent 0)
  | .controlDtc t d => some (.controlDtc t.toNat (d.getD []))
  | .accessTiming t r => some (.accessTiming t.toNat (r.getD []))
  | .routineControl rid ct d => some (.routine ct.toNat rid.toNat (d.getD []))
  | .transferData s d => some (.transferData s.toNat (d.getD []))
  | .transferExit d => some (.transferExit (d.getD []))
  | _ => none

theorem svc_dsc : svc "DiagnosticSessionControl" = ⟨"DiagnosticSessionControl", 0x10, true, true⟩ := by decide
theorem svc_er : svc "ECUReset" = ⟨"ECUReset", 0x11, true, true⟩ := by decide
theorem svc_tp : svc "TesterPresent" = ⟨"TesterPresent", 0x3E, true, true⟩ := by decide
theorem svc_cd : svc "ControlDTCSetting" = ⟨"ControlDTCSetting", 0x85, true, true⟩ := by decide
theorem svc_at : svc "AccessTimingParameter" = ⟨"AccessTimingParameter", 0x83, true, true⟩ := by decide
theorem svc_rc : svc "RoutineControl" = ⟨"RoutineControl", 0x31, true, true⟩ := by decide
theorem svc_td : svc "TransferData" = ⟨"TransferData", 0x36, false, true⟩ := by decide
theorem svc_te : svc "RequestTransferExit" = ⟨"RequestTransferExit", 0x37, false, false⟩ := by decide

theorem sf_byte {n : Nat} (h : n < 128) : (UInt8.ofNat n).toNat % 128 = n ∧ ¬ ((UInt8.ofNat n).toNat ≥ 128) := by
  have : (UInt8.ofNat n).toNat = n := toNat_ofNat_lt (by omega)
  rw [this]; omega

theorem simple_frame_decodes (std : Nat) (e : Entry) (r : Request) (v : Spec.ReqVal) (view : Spec.SrvView)
    (h : e.makeRequest std = .ok r) (hv : simpleCanon e = some v) :
    ∃ frame sid, r.getPayload = .ok frame ∧ Spec.decodeRequest view frame = some ⟨sid, false, v⟩ := by
  cases e <;> simp only [simpleCanon, Option.some.injEq, reduceCtorEq] at hv <;> (try subst hv)
  case changeSession n =>
    simp [Entry.makeRequest, dscMakeRequest, map_ok, bind_ok, validateInt_ok] at h
    obtain ⟨⟨h1, h2⟩, rfl⟩ := h
    obtain ⟨b1, b2⟩ := sf_byte (show n.toNat < 128 by omega)
    refine ⟨_, 0x10, payload_sf _ _ _ _ svc_dsc rfl (by decide) (by omega), ?_⟩
    simp [Spec.decodeRequest, Spec.hasSubfn, Spec.decodeSubfn, b1, b2]; omega
  case ecuReset t =>
    simp [Entry.makeRequest, ecuResetMakeRequest, map_ok, bind_ok, validateInt_ok] at h
    obtain ⟨⟨h1, h2⟩, rfl⟩ := h
    obtain ⟨b1, b2⟩ := sf_byte (show t.toNat < 128 by omega)
    refine ⟨_, 0x11, payload_sf _ _ _ _ svc_er rfl (by decide) (by omega), ?_⟩
    simp [Spec.decodeRequest, Spec.hasSubfn, Spec.decodeSubfn, b1, b2]; omega
  case testerPresent =>
    simp only [Entry.makeRequest, testerPresentMakeRequest, pure_ok] at h; subst h
    exact ⟨_, 0x3E, payload_sf _ _ _ _ svc_tp rfl (by decide) (by decide), by simp [Spec.decodeRequest, Spec.hasSubfn, Spec.decodeSubfn]⟩
  case controlDtc t d =>
    simp [Entry.makeRequest, controlDtcMakeRequest, map_ok, bind_ok, validateInt_ok] at h
    obtain ⟨⟨h1, h2⟩, rfl⟩ := h
    obtain ⟨b1, b2⟩ := sf_byte (show t.toNat < 128 by omega)
    refine ⟨_, 0x85, payload_sf _ _ _ _ svc_cd rfl (by decide) (by omega), ?_⟩
    simp [Spec.decodeRequest, Spec.hasSubfn, Spec.decodeSubfn, b1, b2]; omega
  case transferData s d =>
    simp [Entry.makeRequest, transferDataMakeRequest, map_ok, bind_ok, validateInt_ok] at h
    obtain ⟨⟨h1, h2⟩, rfl⟩ := h
    refine ⟨_, 0x36, payload_nosf _ _ _ svc_td rfl (by decide), ?_⟩
    simp [Spec.decodeRequest, Spec.hasSubfn, Spec.decodeNoSubfn, Spec.pU8_cons, toNat_ofNat_lt (show s.toNat < 256 by omega)]
  case transferExit d =>
    simp only [Entry.makeRequest, transferExitMakeRequest, pure_ok] at h; subst h
    cases d with
    | none =>
      refine ⟨[0x37], 0x37, ?_, by simp [Spec.decodeRequest, Spec.hasSubfn, Spec.decodeNoSubfn]⟩
      simp [mkReq, Request.getPayload, packB, bind, Except.bind, pure, Except.pure, svc_te]
    | some b => exact ⟨_, 0x37, payload_nosf _ _ _ svc_te rfl (by decide), by simp [Spec.decodeRequest, Spec.hasSubfn, Spec.decodeNoSubfn]⟩
  case accessTiming t rec =>
    have hdom := (simple_accepts_iff std (.accessTiming t rec) (by intro a b c hh; cases hh) (by intro a b hh; cases hh)).1 ⟨r, h⟩
    obtain ⟨h1, h2, _⟩ := hdom
    have hr : r = mkReq "AccessTimingParameter" (some t.toNat) (some (rec.getD [])) := by
      simp only [Entry.makeRequest, accessTimingMakeRequest, bind_ok, validateInt_ok, ite_ok, throw_ok, and_false, false_or, pure_ok, exists_and_left,
        exists_eq_left', exists_const, exists_false, and_false, false_and] at h
      obtain ⟨_, _, _, _, rfl⟩ := h; rfl
    subst hr
    obtain ⟨b1, b2⟩ := sf_byte (show t.toNat < 128 by omega)
    refine ⟨_, 0x83, payload_sf _ _ _ _ svc_at rfl (by decide) (by omega), ?_⟩
    simp [Spec.decodeRequest, Spec.hasSubfn, Spec.decodeSubfn, b1, b2]; omega
  case routineControl rid ct d =>
    simp only [Entry.makeRequest, routineControlMakeRequest, bind_ok, validateInt_ok, pure_ok] at h
    obtain ⟨_, ⟨r1, r2⟩, _, ⟨c1, c2⟩, rfl⟩ := h
    obtain ⟨b1, b2⟩ := sf_byte (show ct.toNat < 128 by omega)
    refine ⟨_, 0x31, payload_sf _ _ _ _ svc_rc rfl (by decide) (by omega), ?_⟩
    have hlt : rid.toNat < 256 ^ 2 := by omega
    simp [Spec.decodeRequest, Spec.hasSubfn, Spec.decodeSubfn, b1, b2, Spec.pBE_toBE 2 _ _ hlt]; omega

/-! ### DynamicallyDefineDataIdentifier by source identifier -/

/-- what the source entries look like on the wire: source identifier, position, size -/
def srcCanon (entries : List DddSrc) : List (Nat × Nat × Nat) := entries.map (fun e => (e.sourceDid.toNat, e.position.toNat, e.size.toNat))

theorem pSrcList_enc (entries : List DddSrc) (b : Bytes) (fuel : Nat) (hf : entries.length ≤ fuel)
    (hd : ∀ e ∈ entries, 0 ≤ e.sourceDid ∧ e.sourceDid ≤ 0xFFFF ∧ 0 ≤ e.position ∧ 0 ≤ e.size) (h : dddSrcBytes entries = .ok b) :
    Spec.pSrcList fuel b = some (srcCanon entries) := by
  induction entries generalizing b fuel with
  | nil =>
    simp only [dddSrcBytes, pure_ok] at h; subst h
    cases fuel <;> simp [Spec.pSrcList, srcCanon]
  | cons e rest ih =>
    simp only [dddSrcBytes, bind_ok, guardPy_ok, pure_ok] at h
    obtain ⟨_, hg, tl, htl, rfl⟩ := h
    obtain ⟨d0, d1, p0, s0⟩ := hd e (by simp)
    have hp : e.position ≤ 0xFF ∧ e.size ≤ 0xFF := by
      simp only [Bool.or_eq_false_iff, decide_eq_false_iff_not, Int.not_lt] at hg; omega
    cases fuel with
    | zero => simp at hf
    | succ fuel =>
      have hne : (toBE 2 e.sourceDid.toNat ++ [UInt8.ofNat e.position.toNat, UInt8.ofNat e.size.toNat] ++ tl).isEmpty = false := by simp [toBE]
      have hdid : e.sourceDid.toNat < 256 ^ 2 := by omega
      have e1 : Spec.pBE 2 (toBE 2 e.sourceDid.toNat ++ [UInt8.ofNat e.position.toNat, UInt8.ofNat e.size.toNat] ++ tl) =
          some (e.sourceDid.toNat, [UInt8.ofNat e.position.toNat, UInt8.ofNat e.size.toNat] ++ tl) := by
        rw [List.append_assoc]; exact Spec.pBE_toBE 2 _ _ hdid
      have hpp : (UInt8.ofNat e.position.toNat).toNat = e.position.toNat := toNat_ofNat_lt (by omega)
      have hss : (UInt8.ofNat e.size.toNat).toNat = e.size.toNat := toNat_ofNat_lt (by omega)
      have := ih tl fuel (by simp at hf; omega) (fun x hx => hd x (by simp [hx])) htl
      simp only [Spec.pSrcList, hne, Bool.false_eq_true, if_false, e1, List.cons_append, List.nil_append, Spec.pU8_cons, hpp, hss, this]
      simp [srcCanon]

theorem dddSrcBytes_length (entries : List DddSrc) (b : Bytes) (h : dddSrcBytes entries = .ok b) : b.length = 4 * entries.length := by
  induction entries generalizing b with
  | nil => simp only [dddSrcBytes, pure_ok] at h; subst h; rfl
  | cons e rest ih =>
    simp only [dddSrcBytes, bind_ok, guardPy_ok, pure_ok] at h
    obtain ⟨_, _, tl, htl, rfl⟩ := h
    simp [ih tl htl]; omega

/-- **dynamically_define_did by source identifier**: `2C 01 <did> { <source did> <position> <size> }*`, every entry read back in order -/
theorem dddByDid_frame_decodes (did : Int) (entries : List DddSrc) (r : Request) (view : Spec.SrvView) (h : dddByDidMakeRequest did entries = .ok r) :
    ∃ frame, r.getPayload = .ok frame ∧ Spec.decodeRequest view frame = some ⟨0x2C, false, .dddByDid did.toNat (srcCanon entries)⟩ := by
  simp only [dddByDidMakeRequest, bind_ok, C07.forM_check_ok, validateInt_ok, guardPy_ok, pure_ok] at h
  obtain ⟨_, hchk, _, ⟨d0, d1⟩, _, _, body, hbody, rfl⟩ := h
  refine ⟨_, payload_sf _ _ _ _ svc_ddd rfl (by decide) (by decide), ?_⟩
  have hdid : did.toNat < 256 ^ 2 := by omega
  have hl := dddSrcBytes_length entries body hbody
  have hsrc := pSrcList_enc entries body body.length (by omega) hchk hbody
  simp [Spec.decodeRequest, Spec.hasSubfn, Spec.decodeSubfn, Spec.pBE_toBE 2 _ _ hdid, hsrc]


/-! ### the remaining simple entry points: security access, communication control, link control, clear DTC -/

theorem svc_sa : svc "SecurityAccess" = ⟨"SecurityAccess", 0x27, true, true⟩ := by decide
theorem svc_cc : svc "CommunicationControl" = ⟨"CommunicationControl", 0x28, true, true⟩ := by decide
theorem svc_lc : svc "LinkControl" = ⟨"LinkControl", 0x87, true, true⟩ := by decide
theorem svc_cl : svc "ClearDiagnosticInformation" = ⟨"ClearDiagnosticInformation", 0x14, false, false⟩ := by decide

/-- **request_seed / send_key**: the transmitted sub-function is the normalised level (odd for a seed request, even for a key), followed by the data -/
theorem sa_frame_decodes (l : Int) (mode : SaMode) (d : Bytes) (r : Request) (view : Spec.SrvView) (h : saMakeRequest l mode d = .ok r) :
    ∃ frame sf, r.getPayload = .ok frame ∧ normalizeLevel mode l = .ok sf ∧ Spec.decodeRequest view frame = some ⟨0x27, false, .securityAccess sf d⟩ := by
  simp only [saMakeRequest, bind_ok, validateInt_ok, pure_ok] at h
  obtain ⟨_, _, sf, hsf, rfl⟩ := h
  have hlt := Uds.Props.C03.normalizeLevel_lt mode l sf hsf
  obtain ⟨b1, b2⟩ := sf_byte hlt
  refine ⟨_, sf, payload_sf _ _ _ _ svc_sa rfl (by decide) (by omega), hsf, ?_⟩
  simp [Spec.decodeRequest, Spec.hasSubfn, Spec.decodeSubfn, b1, b2]; omega

/-- **communication_control**: control type, the communication type byte as given, and the 16-bit node identifier when the edition asks for one -/
theorem commControl_frame_decodes (std : Nat) (ct : Int) (c : Nat) (node : Option Int) (r : Request) (view : Spec.SrvView)
    (h : commControlMakeRequest std ct c node = .ok r) :
    ∃ frame, r.getPayload = .ok frame ∧ Spec.decodeRequest view frame = some ⟨0x28, false, .commControl ct.toNat c (node.map Int.toNat)⟩ := by
  simp only [commControlMakeRequest, bind_ok, validateInt_ok, ite_throw_bind_ok] at h
  obtain ⟨_, ⟨h0, h1⟩, _, _, x, hx, p, hp, hr⟩ := h
  have hc : c < 256 := by
    by_cases hc : c ≤ 0xFF
    · omega
    · rw [C19.commtype_rejects_wide c (by omega)] at hx; cases hx
  have hbyte := C19.commtype_encode_decode c hc x hx
  rw [packB_ok] at hp
  obtain ⟨_, rfl⟩ := hp
  obtain ⟨b1, b2⟩ := sf_byte (show ct.toNat < 128 by omega)
  have hcb : (UInt8.ofNat c).toNat = c := toNat_ofNat_lt hc
  cases node with
  | none =>
    simp only [pure_ok] at hr; subst hr
    refine ⟨_, payload_sf _ _ _ _ svc_cc rfl (by decide) (by omega), ?_⟩
    simp [Spec.decodeRequest, Spec.hasSubfn, Spec.decodeSubfn, b1, b2, hbyte, Spec.pU8_cons, hcb]; omega
  | some n =>
    simp only [bind_ok, validateInt_ok, pure_ok] at hr
    obtain ⟨_, ⟨n0, n1⟩, rfl⟩ := hr
    refine ⟨_, payload_sf _ _ _ _ svc_cc rfl (by decide) (by omega), ?_⟩
    have hn : n.toNat < 256 ^ 2 := by omega
    have := Spec.pBE_toBE 2 n.toNat [] hn
    rw [List.append_nil] at this
    have hne : toBE 2 n.toNat ≠ [] := by simp [toBE]
    simp [Spec.decodeRequest, Spec.hasSubfn, Spec.decodeSubfn, hbyte, Spec.pU8_cons, hcb, this, hne]
    omega

/-- **link_control**: control type and the baud-rate bytes -/
theorem linkControl_frame_decodes (ct : Int) (baud : Option Baudrate) (r : Request) (view : Spec.SrvView) (h : linkControlMakeRequest ct baud = .ok r) :
    ∃ frame data, r.getPayload = .ok frame ∧ r.data = data ∧ Spec.decodeRequest view frame = some ⟨0x87, false, .linkControl ct.toNat (data.getD [])⟩ := by
  obtain ⟨⟨h0, h1⟩, data, rfl⟩ := Uds.Props.C03.linkControl_shape ct baud r h
  obtain ⟨b1, b2⟩ := sf_byte (show ct.toNat < 128 by omega)
  refine ⟨_, data, payload_sf _ _ _ _ svc_lc rfl (by decide) (by omega), rfl, ?_⟩
  simp [Spec.decodeRequest, Spec.hasSubfn, Spec.decodeSubfn, b1, b2]; omega


/-- **clear_dtc**: the 3-byte group and, from the 2020 edition, the memory selection byte -/
theorem clearDtc_frame_decodes (std : Nat) (g : Int) (m : Option Int) (r : Request) (view : Spec.SrvView) (h : clearDtcMakeRequest std g m = .ok r) :
    ∃ frame, r.getPayload = .ok frame ∧ Spec.decodeRequest view frame = some ⟨0x14, false, .clearDtc g.toNat (m.map Int.toNat)⟩ := by
  simp only [clearDtcMakeRequest, bind_ok, validateInt_ok] at h
  obtain ⟨_, ⟨g0, g1⟩, h⟩ := h
  have hg : g.toNat < 2 ^ 24 := by omega
  cases m with
  | none =>
    simp only [pure_ok] at h; subst h
    refine ⟨_, payload_nosf _ _ _ svc_cl rfl (by decide), ?_⟩
    have := pBE_packDtc g.toNat [] hg
    rw [List.append_nil] at this
    simp [Spec.decodeRequest, Spec.hasSubfn, Spec.decodeNoSubfn, this]
  | some x =>
    simp only [bind_ok, ite_throw_bind_ok, validateInt_ok, pure_ok] at h
    obtain ⟨_, _, ⟨x0, x1⟩, rfl⟩ := h
    refine ⟨_, payload_nosf _ _ _ svc_cl rfl (by decide), ?_⟩
    have hx : (UInt8.ofNat x.toNat).toNat = x.toNat := toNat_ofNat_lt (by omega)
    have := pBE_packDtc g.toNat [UInt8.ofNat x.toNat] hg
    simp [Spec.decodeRequest, Spec.hasSubfn, Spec.decodeNoSubfn, this, Spec.pU8_cons, hx]


/-! ### positive-response suppression: only bit 7 of the sub-function byte differs, and the decoder reads it back -/

theorem suppress_decodes (view : Spec.SrvView) (sid : UInt8) (sf : Nat) (data : Bytes) (d : Spec.Decoded)
    (hs : Spec.hasSubfn sid.toNat = true) (hsf : sf < 128)
    (h : Spec.decodeRequest view (sid :: UInt8.ofNat sf :: data) = some d) :
    Spec.decodeRequest view (sid :: UInt8.ofNat (sf + 128) :: data) = some { d with suppress := true } ∧ d.suppress = false := by
  have b0 : (UInt8.ofNat sf).toNat = sf := toNat_ofNat_lt (by omega)
  have b1 : (UInt8.ofNat (sf + 128)).toNat = sf + 128 := toNat_ofNat_lt (by omega)
  simp only [Spec.decodeRequest, hs, if_true, b0, b1, Nat.mod_eq_of_lt hsf, show (sf + 128) % 128 = sf by omega] at h ⊢
  cases hv : Spec.decodeSubfn sid.toNat sf data with
  | none => simp [hv] at h
  | some v =>
    simp only [hv, Option.map_some, Option.some.injEq] at h ⊢
    subst h
    simp; omega

/-- services without a sub-function cannot carry the suppress bit: `get_payload(suppress_positive_response=True)` refuses -/
theorem no_subfn_no_suppress (r : Request) (s : Service) (hs : r.service = some s) (hu : s.useSubfn = false) :
    r.getPayload (some true) = .error .valueErr := by
  simp [Request.getPayload, hs, hu, throw, throwThe, MonadExceptOf.throw]

/-! ### non-vacuity -/
example : ∃ r, wdbiMakeRequest { entries := [(0x1234, some 2)] } 0x1234 [0xBE, 0xEF] = .ok r := ⟨_, rfl⟩
example : ∃ r, dtcMakeRequest 2020 { sf := 0x19, dtc := some 0x000102, extRec := some 4, memSel := some 7 } = .ok r := ⟨_, rfl⟩
example : Spec.decodeRequest {} [0x19, 0x99, 0x00, 0x01, 0x02, 0x04, 0x07] =
    some ⟨0x19, true, .dtc 0x19 [("DTCMaskRecord", 258), ("DTCExtDataRecordNumber", 4), ("MemorySelection", 7)]⟩ := by decide

end Uds.Props.C01
