import Uds.Model.Encode
import Uds.Spec.Request
namespace Uds.Props.C01
open Uds Uds.Model
theorem placeholder : True := trivial
end Uds.Props.C01
