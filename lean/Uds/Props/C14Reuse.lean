import Uds.Props.C14
/-
  C14: one MemoryLocation object used under two configurations.
-/
namespace Uds.Props.C14
open Uds Uds.Model

/-- what `applyConfig` leaves in the object -/
theorem applyConfig_ok {ml ml' : MemLoc} {caf cmf : Option Int} (h : ml.applyConfig caf cmf = .ok ml') :
    ∃ x y, resolveFmt (pick caf ml.af) ml.address = .ok x ∧ resolveFmt (pick cmf ml.mf) ml.size = .ok y
      ∧ mkAlfid x y = .ok (ml'.alfidA, ml'.alfidM)
      ∧ ml'.address = ml.address ∧ ml'.size = ml.size ∧ ml'.af = pick caf ml.af ∧ ml'.mf = pick cmf ml.mf := by
  unfold MemLoc.applyConfig at h
  cases h3 : ml.setFormatIfNone caf none with
  | error e => simp [h3, bind, Except.bind] at h
  | ok ml1 =>
    simp [h3, bind, Except.bind] at h
    obtain ⟨x1, y1, _, _, _, ha1, hs1, haf1, hmf1⟩ := sfin_ok h3
    obtain ⟨x2, y2, hx2, hy2, hz2, ha2, hs2, haf2, hmf2⟩ := sfin_ok h
    refine ⟨x2, y2, ?_, ?_, hz2, by rw [ha2, ha1], by rw [hs2, hs1], ?_, ?_⟩
    · rw [haf1, ha1] at hx2; cases hq : ml.af <;> cases caf <;> simp [pick, hq] at hx2 ⊢ <;> exact hx2
    · rw [hmf1, hs1] at hy2; cases hq : ml.mf <;> cases cmf <;> simp [pick, hq] at hy2 ⊢ <;> exact hy2
    · rw [haf2, haf1]; cases hq : ml.af <;> cases caf <;> simp [pick]
    · rw [hmf2, hmf1]; cases hq : ml.mf <;> cases cmf <;> simp [pick]

/-- **one object under two configurations** (a MemoryLocation kept by the application and used with a second client, or after the configuration
    changed): the widths it is transmitted with the second time are `explicit, else the first configuration's, else the second one's, else smallest` —
    a configured format, once applied, stays with the object; address and size are untouched -/
theorem reuse_resolution (a s : Int) (af mf c1a c1m c2a c2m : Option Int) (ml ml1 ml2 : MemLoc)
    (h0 : MemLoc.new a s af mf = .ok ml) (h1 : ml.applyConfig c1a c1m = .ok ml1) (h2 : ml1.applyConfig c2a c2m = .ok ml2) :
    resolved af (c1a.orElse fun _ => c2a) a = .ok (ml2.alfidA : Int) ∧ resolved mf (c1m.orElse fun _ => c2m) s = .ok (ml2.alfidM : Int)
    ∧ Width ml2.alfidA ∧ Width ml2.alfidM ∧ ml2.address = a ∧ ml2.size = s := by
  obtain ⟨_, _, _, _, _, ha, hs, haf, hmf⟩ := new_ok h0
  obtain ⟨_, _, _, _, _, ha1, hs1, haf1, hmf1⟩ := applyConfig_ok h1
  obtain ⟨x2, y2, hx2, hy2, hz2, ha2, hs2, _, _⟩ := applyConfig_ok h2
  obtain ⟨w1, w2, e1, e2⟩ := mkAlfid_ok hz2
  rw [e1, e2]
  refine ⟨?_, ?_, w1, w2, by rw [ha2, ha1, ha], by rw [hs2, hs1, hs]⟩
  · rw [haf1, haf, ha1, ha] at hx2
    cases af <;> cases c1a <;> cases c2a <;> simpa [resolved, pick, resolveFmt, Option.orElse] using hx2
  · rw [hmf1, hmf, hs1, hs] at hy2
    cases mf <;> cases c1m <;> cases c2m <;> simpa [resolved, pick, resolveFmt, Option.orElse] using hy2

/-! non-vacuity: built without formats, used under (32, 16), then under (8, 8): still 32 / 16 -/
example : (do let ml ← MemLoc.new 0x1234 4 none none; let m1 ← ml.applyConfig (some 32) (some 16); let m2 ← m1.applyConfig (some 8) (some 8); pure (m2.alfidA, m2.alfidM))
    = (.ok (32, 16) : Py (Nat × Nat)) := by decide +kernel

end Uds.Props.C14
