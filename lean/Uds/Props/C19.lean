import Uds.Model.Codecs
import Uds.Lemmas.Bytes
/-
  C19 — fixed-width helper codecs are exact inverses over their whole finite domain.
-/
namespace Uds.Props.C19
open Uds Uds.Model

/-! ### DTC status (ISO 14229-1 D.2: bit 0 testFailed … bit 7 warningIndicatorRequested) -/

theorem status_decode_encode (s : Status) : Status.ofByte s.toByte = s := by
  obtain ⟨a, b, c, d, e, f, g, h⟩ := s
  cases a <;> cases b <;> cases c <;> cases d <;> cases e <;> cases f <;> cases g <;> cases h <;> decide

theorem status_encode_decode_all : ∀ b : Fin 256, (Status.ofByte b.val).toByte = b.val := by decide +kernel

theorem status_encode_decode (b : Nat) (h : b < 256) : (Status.ofByte b).toByte = b :=
  status_encode_decode_all ⟨b, h⟩

theorem status_bit_positions (s : Status) :
    s.toByte.testBit 0 = s.testFailed ∧ s.toByte.testBit 1 = s.testFailedThisOperationCycle ∧
    s.toByte.testBit 2 = s.pending ∧ s.toByte.testBit 3 = s.confirmed ∧
    s.toByte.testBit 4 = s.testNotCompletedSinceLastClear ∧ s.toByte.testBit 5 = s.testFailedSinceLastClear ∧
    s.toByte.testBit 6 = s.testNotCompletedThisOperationCycle ∧ s.toByte.testBit 7 = s.warningIndicatorRequested ∧
    s.toByte < 256 := by
  obtain ⟨a, b, c, d, e, f, g, h⟩ := s
  cases a <;> cases b <;> cases c <;> cases d <;> cases e <;> cases f <;> cases g <;> cases h <;> decide

/-! ### severity (bits 7–5) and class (bits 4–0) of the severity byte -/

theorem severity_decode_encode (s : Severity) : Severity.ofByte s.toByte = s := by
  obtain ⟨a, b, c⟩ := s
  cases a <;> cases b <;> cases c <;> decide

theorem dtcclass_decode_encode (c : DtcClass) : DtcClass.ofByte c.toByte = c := by
  obtain ⟨a, b, c, d, e⟩ := c
  cases a <;> cases b <;> cases c <;> cases d <;> cases e <;> decide

/-- the severity byte is the union of the two re-encoded halves; each half keeps exactly its bits -/
theorem severity_byte_all : ∀ b : Fin 256,
    (Severity.ofByte b.val).toByte = b.val &&& 0xE0 ∧ (DtcClass.ofByte b.val).toByte = b.val &&& 0x1F ∧
    ((Severity.ofByte b.val).toByte ||| (DtcClass.ofByte b.val).toByte) = b.val := by decide +kernel

theorem severity_bit_positions (s : Severity) (c : DtcClass) :
    s.toByte.testBit 5 = s.maintenanceOnly ∧ s.toByte.testBit 6 = s.checkAtNextExit ∧
    s.toByte.testBit 7 = s.checkImmediately ∧
    c.toByte.testBit 0 = c.class0 ∧ c.toByte.testBit 1 = c.class1 ∧ c.toByte.testBit 2 = c.class2 ∧
    c.toByte.testBit 3 = c.class3 ∧ c.toByte.testBit 4 = c.class4 := by
  obtain ⟨a, b, c'⟩ := s
  obtain ⟨d, e, f, g, h⟩ := c
  cases a <;> cases b <;> cases c' <;> cases d <;> cases e <;> cases f <;> cases g <;> cases h <;> decide

/-! ### communication type (B.1: bits 1–0 message type, bits 7–4 subnet, bits 3–2 reserved) -/

theorem commtype_decode_encode_all : ∀ (subnet : Fin 16) (n m : Bool), (n || m) = true →
    ∃ c, CommType.mk' (Int.ofNat subnet.val) n m = .ok c ∧ CommType.fromByte c.toByte = .ok c ∧
      c.toByte = subnet.val * 16 + (if n then 1 else 0) + (if m then 2 else 0) := by
  intro subnet n m h
  refine ⟨⟨subnet.val, n, m⟩, ?_⟩
  revert subnet n m
  decide +kernel

private theorem commtype_encode_decode_aux : ∀ b : Fin 256,
    (match CommType.fromByte b.val with | .ok c => c.toByte == b.val | .error _ => true) = true := by decide +kernel

/-- every byte accepted by `from_byte` re-encodes to itself -/
theorem commtype_encode_decode (b : Nat) (hb : b < 256) (c : CommType) (h : CommType.fromByte b = .ok c) :
    c.toByte = b := by
  have := commtype_encode_decode_aux ⟨b, hb⟩
  simp only [h] at this
  simpa using this

/-- accepted exactly when a message type is selected and the reserved bits 3–2 are clear -/
theorem commtype_accepts_all : ∀ b : Fin 256,
    (match CommType.fromByte b.val with | .ok _ => true | .error _ => false) =
      (decide (b.val &&& 0x03 ≠ 0) && decide (b.val &&& 0x0C = 0)) := by decide +kernel

/-- nothing above one byte is accepted -/
theorem commtype_rejects_wide (v : Nat) (h : 0xFF < v) : CommType.fromByte v = .error .valueErr := by
  simp [CommType.fromByte, h]; rfl

/-! ### data format identifier (compression bits 7–4, encryption bits 3–0) -/

theorem dfi_decode_encode_all : ∀ (c e : Fin 16),
    Dfi.mk' (Int.ofNat c.val) (Int.ofNat e.val) = .ok ⟨c.val, e.val⟩ ∧
    Dfi.fromByte (Dfi.toByte ⟨c.val, e.val⟩) = .ok ⟨c.val, e.val⟩ ∧
    Dfi.toByte ⟨c.val, e.val⟩ = c.val * 16 + e.val := by decide +kernel

theorem dfi_encode_decode_all : ∀ b : Fin 256, ∃ d, Dfi.fromByte b.val = .ok d ∧ d.toByte = b.val := by
  intro b
  refine ⟨⟨(b.val >>> 4) &&& 0xF, b.val &&& 0xF⟩, ?_⟩
  revert b
  decide +kernel

/-! ### address-and-length format identifier: all 64 pairs -/

def widths : List Nat := [8, 16, 24, 32, 40, 48, 56, 64]

/-- high nibble = bytes of the memory size, low nibble = bytes of the address, and the nibbles decode
    back to the pair -/
theorem alfid_all : ∀ af ∈ widths, ∀ mf ∈ widths,
    Alfid.mk' (Int.ofNat af) (Int.ofNat mf) = .ok ⟨af, mf⟩ ∧
    Alfid.toByte ⟨af, mf⟩ = (mf / 8) * 16 + af / 8 ∧
    ((Alfid.toByte ⟨af, mf⟩) &&& 0xF) * 8 = af ∧ ((Alfid.toByte ⟨af, mf⟩) >>> 4) * 8 = mf := by decide +kernel

/-- anything but the eight widths is refused -/
theorem alfid_rejects (af mf : Int) (h : alfidMap af = none ∨ alfidMap mf = none) :
    Alfid.mk' af mf = .error .valueErr := by
  unfold Alfid.mk'
  rcases h with h | h
  · simp [h]; rfl
  · cases alfidMap af <;> simp [h] <;> rfl

/-! ### baud rates -/

/-- fixed encoding: every standard rate ↔ its identifier (table B.3), both ways -/
theorem baud_fixed_all : ∀ e ∈ baudrateMap,
    (Baudrate.mk' (Int.ofNat e.1) (some (some .fixed)) = .ok ⟨e.1, .fixed⟩ ∧
      (Baudrate.mk e.1 .fixed).getBytes = .ok [UInt8.ofNat e.2] ∧ (Baudrate.mk e.1 .fixed).effective = .ok e.1) ∧
    (Baudrate.mk' (Int.ofNat e.2) (some (some .identifier)) = .ok ⟨e.2, .identifier⟩ ∧
      (Baudrate.mk e.2 .identifier).getBytes = .ok [UInt8.ofNat e.2] ∧ (Baudrate.mk e.2 .identifier).effective = .ok e.1) ∧
    Baudrate.mk' (Int.ofNat e.1) none = .ok ⟨e.1, .fixed⟩ := by
  decide +kernel

theorem baud_table_injective : baudrateMap.Pairwise (fun a b => a.1 ≠ b.1 ∧ a.2 ≠ b.2) := by decide

/-- identifier encoding: the byte itself, for every byte -/
theorem baud_identifier_all : ∀ i : Fin 256,
    ∃ b, Baudrate.mk' (Int.ofNat i.val) (some (some .identifier)) = .ok b ∧ b.getBytes = .ok [UInt8.ofNat i.val] := by
  intro i
  refine ⟨⟨i.val, .identifier⟩, ?_⟩
  revert i
  decide +kernel

/-- specific encoding: three bytes, big-endian, exact for every 24-bit rate -/
theorem baud_specific (n : Nat) (h : n < 2 ^ 24) :
    ∃ b, Baudrate.mk' (Int.ofNat n) (some (some .specific)) = .ok b ∧
      ∃ bs, b.getBytes = .ok bs ∧ bs.length = 3 ∧ fromBE bs = n := by
  have hn : ¬ (n > 0xFFFFFF) := by omega
  have hneg : ¬ ((Int.ofNat n) < 0) := by show ¬ ((n : Int) < 0); omega
  refine ⟨⟨n, .specific⟩, ?_, _, rfl, rfl, ?_⟩
  · simp [Baudrate.mk', Baudrate.mkNat, hn, hneg, pure, Except.pure]
  · simp only [fromBE, List.foldl, and_ff, Nat.shiftRight_eq_div_pow]
    have h1 : (UInt8.ofNat (n / 2 ^ 16 % 256)).toNat = n / 2 ^ 16 % 256 := toNat_ofNat_lt (by omega)
    have h2 : (UInt8.ofNat (n / 2 ^ 8 % 256)).toNat = n / 2 ^ 8 % 256 := toNat_ofNat_lt (by omega)
    have h3 : (UInt8.ofNat (n % 256)).toNat = n % 256 := toNat_ofNat_lt (by omega)
    rw [h1, h2, h3]; omega

/-- automatic classification: standard rate → fixed; else one byte → identifier; else specific -/
theorem baud_auto (n : Nat) :
    (∀ b, Baudrate.mkNat n none = .ok b →
      b.baudrate = n ∧
      (b.baudtype = .fixed ↔ (baudFixedId n).isSome = true) ∧
      (b.baudtype = .identifier ↔ ((baudFixedId n).isSome = false ∧ n ≤ 0xFF)) ∧
      (b.baudtype = .specific ↔ ((baudFixedId n).isSome = false ∧ 0xFF < n ∧ n ≤ 0xFFFFFF))) := by
  intro b hb
  simp only [Baudrate.mkNat] at hb
  cases hf : (baudFixedId n).isSome
  · simp only [hf, Bool.false_eq_true, if_false] at hb
    by_cases h255 : n ≤ 0xFF
    · simp only [h255, if_true] at hb
      have : ¬ n > 255 := by omega
      simp [this, pure, Except.pure] at hb
      subst hb; simp [h255]; omega
    · simp only [h255, if_false] at hb
      by_cases hbig : n > 0xFFFFFF
      · simp [hbig, throw, throwThe, MonadExceptOf.throw] at hb
      · simp [hbig, pure, Except.pure] at hb
        subst hb; simp; omega
  · simp only [hf, if_true] at hb
    have hn : (baudFixedId n).isNone = false := by
      cases h : baudFixedId n <;> simp_all
    simp [hn, pure, Except.pure] at hb
    subst hb; simp

/-! ### packed 24-bit DTC number -/

theorem pack_dtc_roundtrip (n : Nat) (h : n < 2 ^ 24) : (packDtc n).length = 3 ∧ fromBE (packDtc n) = n := by
  refine ⟨rfl, ?_⟩
  simp only [packDtc, fromBE, List.foldl, and_ff, Nat.shiftRight_eq_div_pow]
  have h1 : (UInt8.ofNat (n / 2 ^ 16 % 256)).toNat = n / 2 ^ 16 % 256 := toNat_ofNat_lt (by omega)
  have h2 : (UInt8.ofNat (n / 2 ^ 8 % 256)).toNat = n / 2 ^ 8 % 256 := toNat_ofNat_lt (by omega)
  have h3 : (UInt8.ofNat (n % 256)).toNat = n % 256 := toNat_ofNat_lt (by omega)
  rw [h1, h2, h3]; omega

theorem pack_dtc_of_bytes (a b c : UInt8) : packDtc (fromBE [a, b, c]) = [a, b, c] := by
  simp only [packDtc, fromBE, List.foldl, and_ff, Nat.shiftRight_eq_div_pow]
  have ha := a.toNat_lt; have hb := b.toNat_lt; have hc := c.toNat_lt
  have e1 : ((0 * 256 + a.toNat) * 256 + b.toNat) * 256 + c.toNat = a.toNat * 65536 + b.toNat * 256 + c.toNat := by omega
  rw [e1]
  have h1 : (a.toNat * 65536 + b.toNat * 256 + c.toNat) / 2 ^ 16 % 256 = a.toNat := by omega
  have h2 : (a.toNat * 65536 + b.toNat * 256 + c.toNat) / 2 ^ 8 % 256 = b.toNat := by omega
  have h3 : (a.toNat * 65536 + b.toNat * 256 + c.toNat) % 256 = c.toNat := by omega
  rw [h1, h2, h3]; simp

/-! ### non-vacuity -/
example : (Status.ofByte 0x2F).confirmed = true ∧ (Status.ofByte 0x2F).toByte = 0x2F := by decide
example : ∃ b, Baudrate.mk' 500000 none = .ok b ∧ b.getBytes = .ok [0x12] := ⟨⟨500000, .fixed⟩, by decide, by decide⟩

end Uds.Props.C19
