import Uds.Model.History
import Uds.Props.C05
import Uds.Props.C06
/-
  C09 — response suppression sets bit 7, returns None, and never outlives its with-block.
-/
namespace Uds.Props.C09
open Uds Uds.Model Uds.Props.C05

/-- payload of a request of a service with a subfunction: `[sid, subfunction (bit 7 per flag)] ++ data` -/
theorem payload_with_subfn (req : Request) (svc : Service) (sf : Nat) (hs : req.service = some svc)
    (hu : svc.useSubfn = true) (hsf : req.subfunction = some sf) (h1 : svc.sid < 256) (h2 : sf < 256) (hr : req.spr = false) :
    req.getPayload (some true) = .ok ([UInt8.ofNat svc.sid, UInt8.ofNat (sf ||| 0x80)] ++ req.data.getD []) ∧
    req.getPayload none = .ok ([UInt8.ofNat svc.sid, UInt8.ofNat sf] ++ req.data.getD []) := by
  -- any sub-function byte, bit 7 possibly set already (a caller-built Request): or-ing 0x80 stays inside the byte
  have hset : setBit7 sf < 256 := by unfold setBit7; exact Nat.or_lt_two_pow (n := 8) (by omega) (by decide)
  have h3 : sf < 256 := h2
  have hset' : sf ||| 128 < 256 := hset
  simp [Request.getPayload, hs, hu, hsf, packB, h1, hset', h3, hr, pure, Except.pure, bind, Except.bind, setBit7]

/-- **bit7_exactly_in_block** — inside the block the frame of a service with a subfunction is the frame the
    same call sends outside any block, with bit 7 of byte 1 set and nothing else changed; outside, bit 7 is clear -/
theorem bit7_exactly_in_block (cfg : SendCfg) (st : ClientState) (req : Request) (svc : Service) (sf : Nat)
    (arr : List Frame) (hs : req.service = some svc) (hu : svc.useSubfn = true) (hsf : req.subfunction = some sf)
    (h1 : svc.sid < 256) (h2 : sf < 256) (hr : req.spr = false) (hovr : st.override = none) (w : Bool) :
    (∃ rest, (sendRequest cfg { st with spr := ⟨true, w⟩ } req none arr).log =
        .flush :: .send ([UInt8.ofNat svc.sid, UInt8.ofNat (sf ||| 0x80)] ++ req.data.getD []) :: rest) ∧
    (∃ rest, (sendRequest cfg { st with spr := ⟨false, w⟩ } req none arr).log =
        .flush :: .send ([UInt8.ofNat svc.sid, UInt8.ofNat sf] ++ req.data.getD []) :: rest) := by
  obtain ⟨p1, p2⟩ := payload_with_subfn req svc sf hs hu hsf h1 h2 hr
  constructor
  · unfold sendRequest
    simp only [hs, hu, Bool.and_self, if_true, p1, hovr]
    split <;> exact ⟨_, rfl⟩
  · unfold sendRequest
    simp only [hs, Bool.false_and, Bool.false_eq_true, if_false, p2, hovr, hr, Bool.or_self]
    exact ⟨_, rfl⟩

/-- with `payload_override` nested inside the block the modifier receives the payload *after* bit 7 was set -/
theorem override_sees_bit7 (cfg : SendCfg) (st : ClientState) (req : Request) (svc : Service) (sf : Nat)
    (arr : List Frame) (hs : req.service = some svc) (hu : svc.useSubfn = true) (hsf : req.subfunction = some sf)
    (h1 : svc.sid < 256) (h2 : sf < 256) (hr : req.spr = false) (m : Modifier) (w : Bool) :
    ∃ rest, (sendRequest cfg { st with spr := ⟨true, w⟩, override := some m } req none arr).log =
        .flush :: .send (m.apply ([UInt8.ofNat svc.sid, UInt8.ofNat (sf ||| 0x80)] ++ req.data.getD [])) :: rest := by
  obtain ⟨p1, _⟩ := payload_with_subfn req svc sf hs hu hsf h1 h2 hr
  unfold sendRequest
  simp only [hs, hu, Bool.and_self, if_true, p1]
  split <;> exact ⟨_, rfl⟩

/-- **returns_none_no_wait** — not waiting for an NRC: None at once, nothing read -/
theorem returns_none_no_wait (cfg : SendCfg) (st : ClientState) (req : Request) (svc : Service) (arr : List Frame)
    (hs : req.service = some svc) (hu : svc.useSubfn = true) (hen : st.spr = ⟨true, false⟩) (p : Bytes)
    (hp : req.getPayload (some true) = .ok p) :
    sendRequest cfg st req none arr =
      { log := [.flush, .send (match st.override with | some m => m.apply p | none => p)], tEnd := 0, outcome := .none } := by
  unfold sendRequest
  simp [hs, hu, hen, hp]
  cases st.override <;> rfl

/-- **wait_nrc**: the loop runs with `spr_used`; silence and a positive reply both give None (no timeout
    error), after any number of in-time 0x78 frames; a negative reply surfaces as in C06 -/
theorem wait_nrc_positive_or_silence (dl : Option Nat) (ps : Nat) (cb : Bool) (rid : Nat)
    (pend : List Frame) (now single : Nat) (star : Bool) (hstar : star = true → single = ps)
    (hp : ∀ f ∈ pend, classify rid f.payload = .pending) :
    (∀ fin extra, classify rid fin.payload = .positive →
        Spec.InTime dl ps now single (pend.map (·.arrival)) fin.arrival →
        (waitLoop dl ps cb rid true now single star (pend ++ fin :: extra)).outcome = .none) ∧
    (∀ rest, Spec.Silent dl ps now single (pend.map (·.arrival)) (rest.head?.map (·.arrival)) →
        (waitLoop dl ps cb rid true now single star (pend ++ rest)).outcome = .none) := by
  constructor
  · intro fin extra hc ht
    rw [final_delivered dl ps cb rid true pend fin extra now single star hstar hp (by simp [hc]) ht]
    simp [finalOutcome, hc]
  · intro rest ht
    exact (timeout_exact dl ps cb rid true pend rest now single star hstar hp ht).2.2.2 rfl

theorem wait_nrc_negative (s : Service) (hs : s ∈ services) (c : UInt8) (hc : c ≠ 0x78) (tail : Bytes)
    (dl : Option Nat) (ps : Nat) (cb : Bool)
    (pend : List Frame) (hp : ∀ f ∈ pend, ∃ t, f.payload = C06.nrcFrame s 0x78 t)
    (tfin : Nat) (extra : List Frame) (now single : Nat) (star : Bool) (hstar : star = true → single = ps)
    (ht : Spec.InTime dl ps now single (pend.map (·.arrival)) tfin) :
    ∃ r, (waitLoop dl ps cb (s.sid + 0x40) true now single star (pend ++ ⟨tfin, C06.nrcFrame s c tail⟩ :: extra)).outcome =
      .raised (.negative c.toNat) (some r) none :=
  ⟨_, (C06.nrc_surfaces s hs c hc tail dl ps cb true pend hp tfin extra now single star hstar ht).1⟩

/-- **no_subfn_unchanged** — a service without a subfunction is sent unmodified and handled normally -/
theorem no_subfn_unchanged (cfg : SendCfg) (st : ClientState) (req : Request) (svc : Service) (arr : List Frame)
    (hs : req.service = some svc) (hu : svc.useSubfn = false) (w1 w2 : Bool) (e : Bool) :
    sendRequest cfg { st with spr := ⟨e, w1⟩ } req none arr = sendRequest cfg { st with spr := ⟨false, w2⟩ } req none arr := by
  unfold sendRequest
  simp only [hs, hu, Bool.and_false, Bool.false_and, Bool.false_eq_true, if_false, Bool.or_false]
  cases hg : req.getPayload none with
  | error err => rfl
  | ok p =>
    simp only []
    cases hr : req.spr
    · simp [p2Eff, p2starEff]
    · -- a request object with suppress flag on a service without subfunction cannot produce a payload
      exfalso
      simp [Request.getPayload, hs, hu, hr, throw, throwThe, MonadExceptOf.throw] at hg

/-- **cleared_after_exit** — leaving the block (normally or by exception) clears suppression, and every
    later step behaves exactly as if the block had never been entered -/
theorem cleared_after_exit (s : HState) (w : Bool) (inside : List HOp) :
    let s1 := (hrun (hstep s (.enterSpr w)).1 inside).1
    (hstep s1 .exitSpr).1.cs.spr = ⟨false, false⟩ := by
  simp [hstep]

theorem after_block_as_never_entered (s : HState) (w : Bool) (hclean : s.cs.spr = ⟨false, false⟩) (op : HOp) :
    hstep (hstep (hstep s (.enterSpr w)).1 .exitSpr).1 op = hstep s op := by
  have : (hstep (hstep s (.enterSpr w)).1 .exitSpr).1 = s := by
    simp only [hstep]
    cases s with
    | mk cs cfg sw rxq opened =>
      cases cs with
      | mk t spr o =>
        simp at hclean
        simp [hclean]
  rw [this]

theorem callInner_spr (cfg : CallCfg) (st : ClientState) (e : Entry) (arr : List Frame) :
    (callInner cfg st e arr).st.spr = st.spr := by
  unfold callInner
  cases hm : e.makeRequest cfg.std with
  | error err => simp
  | ok req =>
    simp only
    cases ho : (sendRequest cfg.send st req none arr).outcome with
    | none => simp
    | raised a b c => simp
    | resp r =>
      simp only
      cases hp : e.post cfg.std r.data with
      | error err => simp
      | ok t =>
        cases t with
        | none => simp
        | some t => cases hu : cfg.useServerTiming <;> simp [hu]

/-- a later block entered without calling the context manager (`with client.suppress_positive_response:`) does not
    inherit `wait_nrc` from an earlier block: after any exit the flag is off again -/
theorem bare_block_after_exit (s : HState) (between : List HOp)
    (hb : ∀ op ∈ between, ∀ w, op ≠ .enterSpr w) :
    let s1 := (hstep s .exitSpr).1
    (hstep (hrun s1 between).1 .enterSprBare).1.cs.spr = ⟨true, false⟩ := by
  intro s1
  have inv : ∀ (ops : List HOp) (t : HState), t.cs.spr.waitNrc = false → (∀ op ∈ ops, ∀ w, op ≠ .enterSpr w) →
      (hrun t ops).1.cs.spr.waitNrc = false := by
    intro ops
    induction ops with
    | nil => intro t h _; simpa [hrun]
    | cons op rest ih =>
      intro t h hne
      simp only [hrun]
      apply ih
      · cases op <;> simp [hstep, h]
        case call e arr => rw [callInner_spr]; exact h
        case enterSpr w => exact absurd rfl (hne _ (by simp) w)
      · intro o ho w; exact hne o (by simp [ho]) w
  have h1 : s1.cs.spr.waitNrc = false := by simp [s1, hstep]
  have := inv between s1 h1 hb
  simp [hstep, this]

/-! ### non-vacuity -/
example : (sendRequest ⟨none, 100, 500, false⟩ { spr := ⟨true, false⟩ } (mkReq "ECUReset" (some 1) none) none []).log
    = [.flush, .send [0x11, 0x81]] := by decide

end Uds.Props.C09
