import Uds.Props.CallUnify
import Uds.Props.C09Hist
/-
  C02 / C11 over arbitrary histories: outside suppress blocks — which the block operations of the history alone decide — what a call hands back for an
  in-time final positive reply is the entry's interpretation of that reply's data and nothing else: no earlier call, failed or not, no block entered and
  left, no stray frame, no switch or edition change before it has a say (the edition in force at that moment is the one the interpretation uses).
-/
namespace Uds.Props.C02
open Uds Uds.Model Uds.Props.CallUnify Uds.Props.C05

theorem final_reply_decides_after_any_history (s : HState) (earlier : List HOp) (e : Entry) (req : Request) (svc : Service) (p0 : Bytes)
    (pend : List Frame) (fin : Frame) (extra : List Frame)
    (hfold : (earlier.foldl C09.blockFold (s.cs.spr, s.cs.override)).1.enabled = false)
    (hm : e.makeRequest (hrun s earlier).1.cfg.std = .ok req) (hsvc : req.service = some svc) (hp0 : req.getPayload none = .ok p0) (hreqspr : req.spr = false)
    (hp : ∀ f ∈ pend, classify (svc.sid + 0x40) f.payload = .pending) (hf : classify (svc.sid + 0x40) fin.payload = .positive)
    (ht : Spec.InTime (hrun s earlier).1.cfg.send.requestTimeout (p2starEff (hrun s earlier).1.cfg.send (hrun s earlier).1.cs) 0
            (firstSingle (hrun s earlier).1.cfg.send (hrun s earlier).1.cs) (pend.map (·.arrival)) fin.arrival) :
    Inner.shape (callInner (hrun s earlier).1.cfg (hrun s earlier).1.cs e (pend ++ fin :: extra)).inner =
      (match e.post (hrun s earlier).1.cfg.std (Response.fromPayload fin.payload).data with | .ok _ => .some | .error err => .exc err) := by
  have hfl := congrArg Prod.fst (C09.hrun_flags s earlier)
  simp only at hfl
  exact simple_call_final _ _ e req svc p0 pend fin extra hm hsvc hp0 hreqspr (by rw [hfl]; exact hfold) hp hf ht

/-! non-vacuity: failed calls, a block left, a stray frame, the edition lowered - then a session change answered after a pending reply is accepted (2006: no timing record needed) -/
example : Inner.shape (callInner (hrun { cfg := { send := ⟨some 2000, 100, 300, false⟩ } }
      [.call (.ecuReset 1) [], .enterSpr false, .call .testerPresent [], .exitSpr, .stray [0x50, 0x03], .setStd 2006]).1.cfg
      (hrun { cfg := { send := ⟨some 2000, 100, 300, false⟩ } }
      [.call (.ecuReset 1) [], .enterSpr false, .call .testerPresent [], .exitSpr, .stray [0x50, 0x03], .setStd 2006]).1.cs
      (.changeSession 3) [⟨5, [0x7F, 0x10, 0x78]⟩, ⟨200, [0x50, 0x03]⟩]).inner = .some := by decide +kernel

end Uds.Props.C02
