import Uds.Props.CallUnify
import Uds.Props.C09Hist
namespace Uds.Props.C09
open Uds Uds.Model Uds.Props.CallUnify

/-- **inside a suppress block, after any history**: if the block operations of the history, folded alone, leave a suppress block open that does not wait
    for an NRC, the next call of an entry point whose service has a sub-function returns None and transmits exactly one frame — its payload with bit 7 of
    the sub-function set (passed through the payload override the same fold leaves open, if any) — without reading anything; whatever else the
    history contained -/
theorem suppressed_inside_any_history (s : HState) (ops : List HOp) (e : Entry) (req : Request) (svc : Service) (arr : List Frame) (p : Bytes)
    (hfold : (ops.foldl blockFold (s.cs.spr, s.cs.override)).1 = ⟨true, false⟩)
    (hm : e.makeRequest (hrun s ops).1.cfg.std = .ok req) (hs : req.service = some svc) (hu : svc.useSubfn = true)
    (hp : req.getPayload (some true) = .ok p) :
    Inner.shape (callInner (hrun s ops).1.cfg (hrun s ops).1.cs e arr).inner = .none ∧
    (hstep (hrun s ops).1 (.call e arr)).2.log =
      [.flush, .send (match (ops.foldl blockFold (s.cs.spr, s.cs.override)).2 with | some m => m.apply p | none => p)] := by
  have hfl := hrun_flags s ops
  have h1 : (hrun s ops).1.cs.spr = ⟨true, false⟩ := by
    have := congrArg Prod.fst hfl; simp only at this; rw [this]; exact hfold
  have h2 : (hrun s ops).1.cs.override = (ops.foldl blockFold (s.cs.spr, s.cs.override)).2 := by
    have := congrArg Prod.snd hfl; simp only at this; exact this
  obtain ⟨a, b⟩ := simple_call_suppressed (hrun s ops).1.cfg (hrun s ops).1.cs e req svc arr p hm hs hu h1 hp
  refine ⟨a, ?_⟩
  simp only [hstep]
  rw [b, h2]
  cases (ops.foldl blockFold (s.cs.spr, s.cs.override)).2 <;> rfl

/-! non-vacuity: a wait_nrc block left after a failed call, a stray frame, then a plain block inside an override: `3E 80` + the appended byte, nothing read -/
example : (hstep (hrun { cfg := { send := ⟨some 2000, 100, 300, false⟩ } }
    [.enterSpr true, .call (.ecuReset 1) [⟨1, [0x7F, 0x11, 0x22]⟩], .exitSpr, .stray [0x7E, 0x00], .enterOvr (.append [0xAA]), .enterSpr false]).1
    (.call .testerPresent [⟨1, [0x7E, 0x00]⟩])).2.log = [.flush, .send [0x3E, 0x80, 0xAA]] := by decide +kernel

end Uds.Props.C09
