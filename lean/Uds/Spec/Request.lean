import Uds.Spec.Parse
import Uds.Spec.Mem
/-
  Server-side reading of request messages, written from ISO 14229-1 (2020) §§ 10–16: service identifier,
  sub-function byte with the suppressPosRspMsgIndicationBit in bit 7, then the parameters in the order and
  widths of the standard's request tables, unsigned, most significant byte first.  Independent of the client
  code: `Props/C01` proves that decoding what the Model transmits gives back the caller's arguments.
-/
namespace Uds.Spec

/-- what the server must know about its own data to split the free-format parts of a request -/
structure SrvView where
  ioHasParam : Bool := true          -- the IO-control request carries an inputOutputControlParameter byte
  ioStateLen : Nat := 0              -- length of the controlState record of the addressed DID
  deriving Repr

inductive ReqVal where
  | session (t : Nat)
  | reset (t : Nat)
  | securityAccess (level : Nat) (data : Bytes)
  | testerPresent (z : Nat)
  | commControl (ct commType : Nat) (node : Option Nat)
  | accessTiming (t : Nat) (record : Bytes)
  | controlDtc (t : Nat) (record : Bytes)
  | linkControl (t : Nat) (record : Bytes)
  | routine (t rid : Nat) (record : Bytes)
  | transferData (seq : Nat) (data : Bytes)
  | transferExit (data : Bytes)
  | clearDtc (group : Nat) (memSel : Option Nat)
  | rdbi (dids : List Nat)
  | wdbi (did : Nat) (record : Bytes)
  | io (did : Nat) (param : Option Nat) (state mask : Bytes)
  | readMem (addrLen sizeLen addr size : Nat)
  | writeMem (addrLen sizeLen addr size : Nat) (data : Bytes)
  | download (dfi addrLen sizeLen addr size : Nat)
  | upload (dfi addrLen sizeLen addr size : Nat)
  | dddByDid (did : Nat) (entries : List (Nat × Nat × Nat))
  | dddByMem (did addrLen sizeLen : Nat) (entries : List (Nat × Nat))
  | dddClear (did : Option Nat)
  | dtc (sf : Nat) (params : List (String × Nat))          -- parameter name ↦ value, in the order of the request table
  | fileTransfer (moop : Nat) (path : Bytes) (dfi : Option Nat) (sizeLen : Option Nat) (unc comp : Option Nat)
  | auth (task : Nat) (fields : List (String × Bytes))
  deriving DecidableEq, Repr

structure Decoded where
  sid : Nat
  suppress : Bool
  val : ReqVal
  deriving DecidableEq, Repr

/-- a list of 2-byte identifiers filling the message -/
def pDidList : Nat → Bytes → Option (List Nat)
  | 0, bs => if bs.isEmpty then some [] else none
  | fuel + 1, bs =>
    if bs.isEmpty then some []
    else match pBE 2 bs with
      | none => none
      | some (d, r) => (pDidList fuel r).map (d :: ·)

def pSrcList : Nat → Bytes → Option (List (Nat × Nat × Nat))
  | 0, bs => if bs.isEmpty then some [] else none
  | fuel + 1, bs =>
    if bs.isEmpty then some []
    else match pBE 2 bs with
      | none => none
      | some (d, r) => match pU8 r with
        | none => none
        | some (p, r2) => match pU8 r2 with
          | none => none
          | some (s, r3) => (pSrcList fuel r3).map ((d, p, s) :: ·)

/-- ReadDTCInformation request parameters per sub-function (ISO 14229-1:2020 table 316 ff.) -/
def dtcLayout (sf : Nat) : Option (List (String × Nat)) :=     -- name, width
  if [0x01, 0x02, 0x0F, 0x11, 0x12, 0x13].contains sf then some [("DTCStatusMask", 1)]
  else if [0x03, 0x0A, 0x0B, 0x0C, 0x0D, 0x0E, 0x14, 0x15].contains sf then some []
  else if sf == 0x04 then some [("DTCMaskRecord", 3), ("DTCSnapshotRecordNumber", 1)]
  else if sf == 0x05 then some [("DTCStoredDataRecordNumber", 1)]
  else if sf == 0x06 || sf == 0x10 then some [("DTCMaskRecord", 3), ("DTCExtDataRecordNumber", 1)]
  else if sf == 0x07 || sf == 0x08 then some [("DTCSeverityMask", 1), ("DTCStatusMask", 1)]
  else if sf == 0x09 then some [("DTCMaskRecord", 3)]
  else if sf == 0x16 then some [("DTCExtDataRecordNumber", 1)]
  else if sf == 0x17 then some [("DTCStatusMask", 1), ("MemorySelection", 1)]
  else if sf == 0x18 then some [("DTCMaskRecord", 3), ("UserDefDTCSnapshotRecordNumber", 1), ("MemorySelection", 1)]
  else if sf == 0x19 then some [("DTCMaskRecord", 3), ("DTCExtDataRecordNumber", 1), ("MemorySelection", 1)]
  else if sf == 0x42 then some [("FunctionalGroupIdentifier", 1), ("DTCStatusMask", 1), ("DTCSeverityMask", 1)]
  else if sf == 0x55 then some [("FunctionalGroupIdentifier", 1)]
  else none

def pFields : List (String × Nat) → Bytes → Option (List (String × Nat))
  | [], bs => if bs.isEmpty then some [] else none
  | (name, w) :: rest, bs =>
    match pBE w bs with
    | none => none
    | some (v, r) => (pFields rest r).map ((name, v) :: ·)

def pLenFields : List String → Bytes → Option (List (String × Bytes))
  | [], bs => if bs.isEmpty then some [] else none
  | name :: rest, bs =>
    match pLen16 bs with
    | none => none
    | some (v, r) => (pLenFields rest r).map ((name, v) :: ·)

def memVal (mk : Nat → Nat → Nat → Nat → Bytes → Option ReqVal) (bs : Bytes) : Option ReqVal :=
  match decodeMem bs with
  | none => none
  | some f => mk f.addrLen f.sizeLen f.address f.size f.rest

/-- RequestFileTransfer: modeOfOperation, filePathAndNameLength + path, then per mode the dataFormatIdentifier, fileSizeParameterLength and the two sizes -/
def decodeRft (p : Bytes) : Option ReqVal :=
  match pU8 p with
  | none => none
  | some (moop, r) => match pLen16 r with
    | none => none
    | some (path, r2) =>
      let hasDfi := moop == 1 || moop == 3 || moop == 4 || moop == 6
      let hasSize := moop == 1 || moop == 3 || moop == 6
      if !hasDfi then (if r2.isEmpty then some (.fileTransfer moop path none none none none) else none)
      else match pU8 r2 with
        | none => none
        | some (dfi, r3) =>
          if !hasSize then (if r3.isEmpty then some (.fileTransfer moop path (some dfi) none none none) else none)
          else match pU8 r3 with
            | none => none
            | some (n, r4) => match pBE n r4 with
              | none => none
              | some (u, r5) => match pBE n r5 with
                | none => none
                | some (c, r6) => if r6.isEmpty then some (.fileTransfer moop path (some dfi) (some n) (some u) (some c)) else none

/-- parameters after the service identifier of a service *without* sub-function -/
def decodeNoSubfn (view : SrvView) (sid : Nat) (p : Bytes) : Option ReqVal :=
  if sid == 0x22 then (pDidList p.length p).map .rdbi
  else if sid == 0x2E then match pBE 2 p with | some (d, r) => some (.wdbi d r) | none => none
  else if sid == 0x2F then
    match pBE 2 p with
    | none => none
    | some (d, r) =>
      if view.ioHasParam then
        match pU8 r with
        | none => none
        | some (c, r2) => match pTake view.ioStateLen r2 with
          | none => none
          | some (st, m) => some (.io d (some c) st m)
      else match pTake view.ioStateLen r with
        | none => none
        | some (st, m) => some (.io d none st m)
  else if sid == 0x23 then memVal (fun al sl a s rest => if rest.isEmpty then some (.readMem al sl a s) else none) p
  else if sid == 0x3D then memVal (fun al sl a s rest => some (.writeMem al sl a s rest)) p
  else if sid == 0x34 || sid == 0x35 then
    match pU8 p with
    | none => none
    | some (dfi, r) => memVal (fun al sl a s rest =>
        if rest.isEmpty then some (if sid == 0x34 then .download dfi al sl a s else .upload dfi al sl a s) else none) r
  else if sid == 0x36 then match pU8 p with | some (q, r) => some (.transferData q r) | none => none
  else if sid == 0x37 then some (.transferExit p)
  else if sid == 0x14 then
    match pBE 3 p with
    | none => none
    | some (g, r) => if r.isEmpty then some (.clearDtc g none)
      else match pU8 r with
        | some (m, r2) => if r2.isEmpty then some (.clearDtc g (some m)) else none
        | none => none
  else if sid == 0x38 then decodeRft p
  else none

/-- parameters after the sub-function byte -/
def decodeSubfn (sid sf : Nat) (p : Bytes) : Option ReqVal :=
  if sid == 0x10 then (if p.isEmpty then some (.session sf) else none)
  else if sid == 0x11 then (if p.isEmpty then some (.reset sf) else none)
  else if sid == 0x27 then some (.securityAccess sf p)
  else if sid == 0x3E then (if p.isEmpty then some (.testerPresent sf) else none)
  else if sid == 0x28 then
    match pU8 p with
    | none => none
    | some (ct, r) => if r.isEmpty then some (.commControl sf ct none)
      else match pBE 2 r with
        | some (n, r2) => if r2.isEmpty then some (.commControl sf ct (some n)) else none
        | none => none
  else if sid == 0x83 then some (.accessTiming sf p)
  else if sid == 0x85 then some (.controlDtc sf p)
  else if sid == 0x87 then some (.linkControl sf p)
  else if sid == 0x31 then match pBE 2 p with | some (rid, r) => some (.routine sf rid r) | none => none
  else if sid == 0x2C then
    if sf == 1 then match pBE 2 p with
      | some (d, r) => (pSrcList r.length r).map (.dddByDid d ·)
      | none => none
    else if sf == 2 then match pBE 2 p with
      | none => none
      | some (d, r) => match r with
        | [] => none
        | f :: body =>
          let al := f.toNat % 16
          let sl := f.toNat / 16
          if al = 0 ∨ sl = 0 then none
          else (decodeMemList al sl body body.length).map (.dddByMem d al sl ·)
    else if sf == 3 then
      if p.isEmpty then some (.dddClear none)
      else match pBE 2 p with
        | some (d, r) => if r.isEmpty then some (.dddClear (some d)) else none
        | none => none
    else none
  else if sid == 0x19 then
    match dtcLayout sf with
    | none => none
    | some layout => (pFields layout p).map (.dtc sf ·)
  else if sid == 0x29 then
    if sf == 0 || sf == 8 then (if p.isEmpty then some (.auth sf []) else none)
    else if sf == 1 || sf == 2 then
      match pTake 1 p with
      | none => none
      | some (cc, r) => (pLenFields ["certificateClient", "challengeClient"] r).map (fun l => .auth sf (("communicationConfiguration", cc) :: l))
    else if sf == 3 then (pLenFields ["proofOfOwnershipClient", "ephemeralPublicKeyClient"] p).map (.auth sf ·)
    else if sf == 4 then
      match pTake 2 p with
      | none => none
      | some (id, r) => (pLenFields ["certificateData"] r).map (fun l => .auth sf (("certificateEvaluationId", id) :: l))
    else if sf == 5 then
      match pTake 1 p with
      | none => none
      | some (cc, r) => match pTake 16 r with
        | none => none
        | some (al, r2) => if r2.isEmpty then some (.auth sf [("communicationConfiguration", cc), ("algorithmIndicator", al)]) else none
    else if sf == 6 || sf == 7 then
      match pTake 16 p with
      | none => none
      | some (al, r) => (pLenFields ["proofOfOwnershipClient", "challengeClient", "additionalParameter"] r).map (fun l => .auth sf (("algorithmIndicator", al) :: l))
    else none
  else none

/-- services whose request has a sub-function byte (ISO 14229-1 table 2) -/
def hasSubfn (sid : Nat) : Bool := [0x10, 0x11, 0x27, 0x28, 0x3E, 0x83, 0x85, 0x87, 0x31, 0x2C, 0x19, 0x29].contains sid

def decodeRequest (view : SrvView) (frame : Bytes) : Option Decoded :=
  match frame with
  | [] => none
  | s :: rest =>
    let sid := s.toNat
    if hasSubfn sid then
      match rest with
      | [] => none
      | b :: p => (decodeSubfn sid (b.toNat % 128) p).map (fun v => { sid := sid, suppress := decide (b.toNat ≥ 128), val := v })
    else (decodeNoSubfn view sid rest).map (fun v => { sid := sid, suppress := false, val := v })

end Uds.Spec
