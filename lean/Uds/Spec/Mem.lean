import Uds.Basic
/-
  Server-side (ISO 14229-1, Annex H) reading of an addressAndLengthFormatIdentifier followed by a
  memoryAddress and a memorySize.  Written from the standard, independent of the client code:
  bits 7-4 of the format byte = number of bytes of memorySize, bits 3-0 = number of bytes of
  memoryAddress; both fields unsigned, most significant byte first.
-/
namespace Uds.Spec

structure MemFields where
  addrLen : Nat
  sizeLen : Nat
  address : Nat
  size : Nat
  rest : Bytes
  deriving DecidableEq, Repr

def decodeMem (bs : Bytes) : Option MemFields :=
  match bs with
  | [] => none
  | f :: rest =>
    let al := f.toNat % 16
    let sl := f.toNat / 16
    if al = 0 ∨ sl = 0 then none
    else if rest.length < al + sl then none
    else some { addrLen := al, sizeLen := sl, address := fromBE (rest.take al),
                size := fromBE ((rest.drop al).take sl), rest := rest.drop (al + sl) }

/-- a sequence of `(address, size)` pairs in fixed widths (DynamicallyDefineDataIdentifier by memory address) -/
def decodeMemList (al sl : Nat) (bs : Bytes) (fuel : Nat) : Option (List (Nat × Nat)) :=
  match fuel with
  | 0 => if bs.isEmpty then some [] else none
  | fuel + 1 =>
    if bs.isEmpty then some []
    else if bs.length < al + sl then none
    else (decodeMemList al sl (bs.drop (al + sl)) fuel).map
           (fun tl => (fromBE (bs.take al), fromBE ((bs.drop al).take sl)) :: tl)

end Uds.Spec
