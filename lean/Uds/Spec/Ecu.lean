import Uds.Spec.Mem
/-
  A stateful reference ECU, written from ISO 14229-1 and independent of the client library: it stores what it is sent.

    * WriteDataByIdentifier (0x2E) stores the record under its identifier; ReadDataByIdentifier (0x22) returns the stored
      records in request order (NRC 0x31 when one was never written);
    * WriteMemoryByAddress (0x3D) / ReadMemoryByAddress (0x23) on a byte-addressed sparse memory (unwritten bytes read 0),
      parsing addressAndLengthFormatIdentifier, address and size as Annex H says (`Spec.decodeMem`);
    * RequestDownload (0x34) opens a transfer to an address range, TransferData (0x36) appends a block if its block
      sequence counter is the expected one (1, 2, …, 0xFF, 0x00, 0x01, …), RequestTransferExit (0x37) commits the
      reassembled bytes to memory if exactly the announced size arrived;
      RequestUpload (0x35) + TransferData stream a memory range back in blocks of `upBlock` bytes;
    * the session-layer services answer with their positive echo; bit 7 of a sub-function suppresses the positive reply.

  `step` returns the new state and the reply (`[]` = no reply).
-/
namespace Uds.Spec

abbrev Mem := List (Nat × UInt8)          -- latest write first; unwritten = 0

def memGet (m : Mem) (a : Nat) : UInt8 :=
  match m.find? (fun e => e.1 == a) with
  | some e => e.2
  | none => 0

def memRead (m : Mem) : Nat → Nat → Bytes
  | _, 0 => []
  | a, n + 1 => memGet m a :: memRead m (a + 1) n

def memWrite (m : Mem) : Nat → Bytes → Mem
  | _, [] => m
  | a, b :: bs => (a, b) :: memWrite m (a + 1) bs

structure Xfer where
  addr : Nat
  size : Nat
  next : Nat             -- expected block sequence counter
  buf : Bytes            -- download: received so far
  upload : Bool
  sent : Nat             -- upload: bytes already streamed
  deriving DecidableEq, Repr

structure Ecu where
  dids : List (Nat × Bytes) := []        -- latest write first
  mem : Mem := []
  xfer : Option Xfer := none
  deriving DecidableEq, Repr

def didGet (l : List (Nat × Bytes)) (did : Nat) : Option Bytes := (l.find? (fun e => e.1 == did)).map (·.2)

def upBlock : Nat := 6

def nrc (sid : UInt8) (code : UInt8) : Bytes := [0x7F, sid, code]

/-- records of a ReadDataByIdentifier reply, or `none` if an identifier has no stored record / the list is ragged -/
def readDids (l : List (Nat × Bytes)) : Bytes → Nat → Option Bytes
  | [], _ => some []
  | _, 0 => none
  | [_], _ => none
  | a :: b :: rest, fuel + 1 =>
    match didGet l (fromBE [a, b]), readDids l rest fuel with
    | some v, some tl => some ([a, b] ++ v ++ tl)
    | _, _ => none

def echoSubfn (sid sf : UInt8) (extra : Bytes) : Bytes :=
  if sf.toNat ≥ 128 then [] else [sid + 0x40, sf] ++ extra

def Ecu.onWdbi (e : Ecu) (sid : UInt8) (body : Bytes) : Ecu × Bytes :=
  if body.length < 3 then (e, nrc sid 0x13)
  else ({ e with dids := (fromBE (body.take 2), body.drop 2) :: e.dids }, [0x6E] ++ body.take 2)

def Ecu.onRdbi (e : Ecu) (sid : UInt8) (body : Bytes) : Ecu × Bytes :=
  if body.length < 2 then (e, nrc sid 0x13)
  else match readDids e.dids body body.length with
    | some recs => (e, [0x62] ++ recs)
    | none => (e, nrc sid 0x31)

def Ecu.onWriteMem (e : Ecu) (sid : UInt8) (body : Bytes) : Ecu × Bytes :=
  match decodeMem body with
  | none => (e, nrc sid 0x13)
  | some f =>
    if f.rest.length ≠ f.size then (e, nrc sid 0x13)
    else ({ e with mem := memWrite e.mem f.address f.rest }, [0x7D] ++ body.take (1 + f.addrLen + f.sizeLen))

def Ecu.onReadMem (e : Ecu) (sid : UInt8) (body : Bytes) : Ecu × Bytes :=
  match decodeMem body with
  | none => (e, nrc sid 0x13)
  | some f => if f.rest ≠ [] then (e, nrc sid 0x13) else (e, [0x63] ++ memRead e.mem f.address f.size)

def Ecu.onXferReq (e : Ecu) (sid : UInt8) (body : Bytes) : Ecu × Bytes :=
  match body with
  | [] => (e, nrc sid 0x13)
  | _dfi :: loc =>
    match decodeMem loc with
    | none => (e, nrc sid 0x13)
    | some f =>
      if f.rest ≠ [] then (e, nrc sid 0x13)
      else ({ e with xfer := some { addr := f.address, size := f.size, next := 1, buf := [], upload := sid == 0x35, sent := 0 } },
            [sid + 0x40, 0x20, 0x0F, 0xFF])

def Ecu.onTransfer (e : Ecu) (sid : UInt8) (body : Bytes) : Ecu × Bytes :=
  match body, e.xfer with
  | [], _ => (e, nrc sid 0x13)
  | _, none => (e, nrc sid 0x24)
  | seq :: data, some x =>
    if seq.toNat ≠ x.next then (e, nrc sid 0x73)
    else if x.upload then
      let n := min upBlock (x.size - x.sent)
      ({ e with xfer := some { x with next := (x.next + 1) % 256, sent := x.sent + n } }, [0x76, seq] ++ memRead e.mem (x.addr + x.sent) n)
    else if x.buf.length + data.length > x.size then (e, nrc sid 0x71)
    else ({ e with xfer := some { x with next := (x.next + 1) % 256, buf := x.buf ++ data } }, [0x76, seq])

def Ecu.onExit (e : Ecu) (sid : UInt8) : Ecu × Bytes :=
  match e.xfer with
  | none => (e, nrc sid 0x24)
  | some x =>
    if x.upload then ({ e with xfer := none }, [0x77])
    else if x.buf.length ≠ x.size then (e, nrc sid 0x24)
    else ({ e with mem := memWrite e.mem x.addr x.buf, xfer := none }, [0x77])

/-- the session-layer services: stateless here -/
def otherReply (sid : UInt8) (body : Bytes) : Bytes :=
  match body with
  | [] => if sid == 0x14 then [0x54] else nrc sid 0x13
  | sf :: rest =>
    if sid == 0x10 then echoSubfn sid sf [0x00, 0x32, 0x01, 0xF4]
    else if sid == 0x11 then echoSubfn sid sf (if sf.toNat % 128 == 4 then [0x05] else [])
    else if sid == 0x27 then echoSubfn sid sf (if sf.toNat % 2 == 1 then [0x12, 0x34, 0x56, 0x78] else [])
    else if sid == 0x3E || sid == 0x28 || sid == 0x85 then echoSubfn sid sf []
    else if sid == 0x31 then (if rest.length < 2 then nrc sid 0x13 else echoSubfn sid sf (rest.take 2))
    else if sid == 0x14 then [0x54]
    else nrc sid 0x11

def Ecu.step (e : Ecu) (frame : Bytes) : Ecu × Bytes :=
  match frame with
  | [] => (e, [])
  | sid :: body =>
    if sid == 0x2E then e.onWdbi sid body
    else if sid == 0x22 then e.onRdbi sid body
    else if sid == 0x3D then e.onWriteMem sid body
    else if sid == 0x23 then e.onReadMem sid body
    else if sid == 0x34 || sid == 0x35 then e.onXferReq sid body
    else if sid == 0x36 then e.onTransfer sid body
    else if sid == 0x37 then e.onExit sid
    else (e, otherReply sid body)

/-- the ECU after a sequence of frames -/
def Ecu.run (e : Ecu) (frames : List Bytes) : Ecu := frames.foldl (fun s f => (s.step f).1) e

end Uds.Spec
