import Uds.Basic
/-
  Spec for name lookups (C20), independent of the code:
  * the ISO 14229-1:2006 Annex C.1 (data identifiers) and Annex F.1 (routine identifiers) range tables,
    transcribed by hand as segments `(lo, hi, name)`;
  * the generic meaning of a subfunction table: exact constants, inclusive range constants, fallback.
-/
namespace Uds.Spec

abbrev Seg := Nat × Nat × String

/-- ISO 14229-1:2006 Table C.1 — dataIdentifier definition (names as the library spells them) -/
def didSegs : List Seg := [
  (0x0000, 0x00FF, "ISOSAEReserved"),
  (0x0100, 0xEFFF, "VehicleManufacturerSpecific"),
  (0xF000, 0xF00F, "NetworkConfigurationDataForTractorTrailerApplicationDataIdentifier"),
  (0xF010, 0xF0FF, "VehicleManufacturerSpecific"),
  (0xF100, 0xF17F, "IdentificationOptionVehicleManufacturerSpecificDataIdentifier"),
  (0xF180, 0xF180, "BootSoftwareIdentificationDataIdentifier"),
  (0xF181, 0xF181, "ApplicationSoftwareIdentificationDataIdentifier"),
  (0xF182, 0xF182, "ApplicationDataIdentificationDataIdentifier"),
  (0xF183, 0xF183, "BootSoftwareFingerprintDataIdentifier"),
  (0xF184, 0xF184, "ApplicationSoftwareFingerprintDataIdentifier"),
  (0xF185, 0xF185, "ApplicationDataFingerprintDataIdentifier"),
  (0xF186, 0xF186, "ActiveDiagnosticSessionDataIdentifier"),
  (0xF187, 0xF187, "VehicleManufacturerSparePartNumberDataIdentifier"),
  (0xF188, 0xF188, "VehicleManufacturerECUSoftwareNumberDataIdentifier"),
  (0xF189, 0xF189, "VehicleManufacturerECUSoftwareVersionNumberDataIdentifier"),
  (0xF18A, 0xF18A, "SystemSupplierIdentifierDataIdentifier"),
  (0xF18B, 0xF18B, "ECUManufacturingDateDataIdentifier"),
  (0xF18C, 0xF18C, "ECUSerialNumberDataIdentifier"),
  (0xF18D, 0xF18D, "SupportedFunctionalUnitsDataIdentifier"),
  (0xF18E, 0xF18E, "VehicleManufacturerKitAssemblyPartNumberDataIdentifier"),
  (0xF18F, 0xF18F, "ISOSAEReservedStandardized"),
  (0xF190, 0xF190, "VINDataIdentifier"),
  (0xF191, 0xF191, "VehicleManufacturerECUHardwareNumberDataIdentifier"),
  (0xF192, 0xF192, "SystemSupplierECUHardwareNumberDataIdentifier"),
  (0xF193, 0xF193, "SystemSupplierECUHardwareVersionNumberDataIdentifier"),
  (0xF194, 0xF194, "SystemSupplierECUSoftwareNumberDataIdentifier"),
  (0xF195, 0xF195, "SystemSupplierECUSoftwareVersionNumberDataIdentifier"),
  (0xF196, 0xF196, "ExhaustRegulationOrTypeApprovalNumberDataIdentifier"),
  (0xF197, 0xF197, "SystemNameOrEngineTypeDataIdentifier"),
  (0xF198, 0xF198, "RepairShopCodeOrTesterSerialNumberDataIdentifier"),
  (0xF199, 0xF199, "ProgrammingDateDataIdentifier"),
  (0xF19A, 0xF19A, "CalibrationRepairShopCodeOrCalibrationEquipmentSerialNumberDataIdentifier"),
  (0xF19B, 0xF19B, "CalibrationDateDataIdentifier"),
  (0xF19C, 0xF19C, "CalibrationEquipmentSoftwareNumberDataIdentifier"),
  (0xF19D, 0xF19D, "ECUInstallationDateDataIdentifier"),
  (0xF19E, 0xF19E, "ODXFileDataIdentifier"),
  (0xF19F, 0xF19F, "EntityDataIdentifier"),
  (0xF1A0, 0xF1EF, "IdentificationOptionVehicleManufacturerSpecific"),
  (0xF1F0, 0xF1FF, "IdentificationOptionSystemSupplierSpecific"),
  (0xF200, 0xF2FF, "PeriodicDataIdentifier"),
  (0xF300, 0xF3FF, "DynamicallyDefinedDataIdentifier"),
  (0xF400, 0xF5FF, "OBDDataIdentifier"),
  (0xF600, 0xF7FF, "OBDMonitorDataIdentifier"),
  (0xF800, 0xF8FF, "OBDInfoTypeDataIdentifier"),
  (0xF900, 0xF9FF, "TachographDataIdentifier"),
  (0xFA00, 0xFA0F, "AirbagDeploymentDataIdentifier"),
  (0xFA10, 0xFAFF, "SafetySystemDataIdentifier"),
  (0xFB00, 0xFCFF, "ReservedForLegislativeUse"),
  (0xFD00, 0xFEFF, "SystemSupplierSpecific"),
  (0xFF00, 0xFFFF, "ISOSAEReserved") ]

/-- ISO 14229-1:2006 Table F.1 — routineIdentifier definition -/
def ridSegs : List Seg := [
  (0x0000, 0x00FF, "ISOSAEReserved"),
  (0x0100, 0x01FF, "TachographTestIds"),
  (0x0200, 0xDFFF, "VehicleManufacturerSpecific"),
  (0xE000, 0xE1FF, "OBDTestIds"),
  (0xE200, 0xE200, "DeployLoopRoutineID"),
  (0xE201, 0xE2FF, "SafetySystemRoutineIDs"),
  (0xE300, 0xEFFF, "ISOSAEReserved"),
  (0xF000, 0xFEFF, "SystemSupplierSpecific"),
  (0xFF00, 0xFF00, "EraseMemory"),
  (0xFF01, 0xFF01, "CheckProgrammingDependencies"),
  (0xFF02, 0xFF02, "EraseMirrorMemoryDTCs"),
  (0xFF03, 0xFFFF, "ISOSAEReserved") ]

def segLookup (t : List Seg) (i : Nat) : Option String :=
  (t.find? (fun s => s.1 ≤ i && i ≤ s.2.1)).map (·.2.2)

/-- segments are ordered, non-empty, gap-free and cover exactly `[n, 65535]` -/
def contiguous : Nat → List Seg → Bool
  | n, [] => n == 65536
  | n, (lo, hi, _) :: rest => lo == n && lo ≤ hi && contiguous (hi + 1) rest

/-- the constants a library class defines: name and value -/
abbrev Consts := List (String × Nat)

/-! ### subfunction tables -/

inductive Member where
  | exact (v : Nat)
  | range (lo hi : Nat)
  deriving DecidableEq, Repr

structure SubfnTable where
  cls : String
  pretty : String
  members : List (String × Member)     -- in `inspect.getmembers` (name) order
  deriving DecidableEq, Repr

def Member.isExact (v : Nat) : Member → Bool
  | .exact x => x == v
  | .range _ _ => false

def Member.inRange (v : Nat) : Member → Bool
  | .exact _ => false
  | .range lo hi => lo ≤ v && v ≤ hi

/-- what the lookup must return: the constant defined for exactly `v`; else a range constant whose
    inclusive range holds `v`; else the custom fallback -/
def subfnName (t : SubfnTable) (v : Nat) : String :=
  match t.members.find? (fun m => m.2.isExact v) with
  | some m => m.1
  | none =>
    match t.members.find? (fun m => m.2.inRange v) with
    | some m => m.1
    | none => "Custom " ++ t.pretty

/-! ### the sub-function parameter values ISO 14229-1 assigns (names as the library spells them)

  A caller writes `ECUReset.ResetType.hardReset`, not `1`: the constants are part of how the arguments of a call are
  given, and the name lookup must answer with the standard's name for the standard's value.  This table is transcribed
  from the standard (tables 25, 34, 54, 74, 128, 171, 144, 378, 426/427, 270/271, 74 of the 2013 / 2020 editions),
  independently of the code; `Tie/Names.lean` demands that the code defines every one of them with this value
  (the code may define more). -/
def isoSubfn : List SubfnTable := [
  ⟨"DiagnosticSessionControl.Session", "", [
    ("defaultSession", .exact 0x01), ("programmingSession", .exact 0x02), ("extendedDiagnosticSession", .exact 0x03),
    ("safetySystemDiagnosticSession", .exact 0x04)]⟩,
  ⟨"ECUReset.ResetType", "", [
    ("hardReset", .exact 0x01), ("keyOffOnReset", .exact 0x02), ("softReset", .exact 0x03),
    ("enableRapidPowerShutDown", .exact 0x04), ("disableRapidPowerShutDown", .exact 0x05)]⟩,
  ⟨"CommunicationControl.ControlType", "", [
    ("enableRxAndTx", .exact 0x00), ("enableRxAndDisableTx", .exact 0x01), ("disableRxAndEnableTx", .exact 0x02),
    ("disableRxAndTx", .exact 0x03), ("enableRxAndDisableTxWithEnhancedAddressInformation", .exact 0x04),
    ("enableRxAndTxWithEnhancedAddressInformation", .exact 0x05)]⟩,
  ⟨"AccessTimingParameter.AccessType", "", [
    ("readExtendedTimingParameterSet", .exact 0x01), ("setTimingParametersToDefaultValues", .exact 0x02),
    ("readCurrentlyActiveTimingParameters", .exact 0x03), ("setTimingParametersToGivenValues", .exact 0x04)]⟩,
  ⟨"ControlDTCSetting.SettingType", "", [
    ("on", .exact 0x01), ("off", .exact 0x02), ("vehicleManufacturerSpecific", .range 0x40 0x5F),
    ("systemSupplierSpecific", .range 0x60 0x7E)]⟩,
  ⟨"LinkControl.ControlType", "", [
    ("verifyBaudrateTransitionWithFixedBaudrate", .exact 0x01), ("verifyBaudrateTransitionWithSpecificBaudrate", .exact 0x02),
    ("transitionBaudrate", .exact 0x03)]⟩,
  ⟨"InputOutputControlByIdentifier.ControlParam", "", [
    ("returnControlToECU", .exact 0x00), ("resetToDefault", .exact 0x01), ("freezeCurrentState", .exact 0x02),
    ("shortTermAdjustment", .exact 0x03)]⟩,
  ⟨"RoutineControl.ControlType", "", [
    ("startRoutine", .exact 0x01), ("stopRoutine", .exact 0x02), ("requestRoutineResults", .exact 0x03)]⟩,
  ⟨"DynamicallyDefineDataIdentifier.Subfunction", "", [
    ("defineByIdentifier", .exact 0x01), ("defineByMemoryAddress", .exact 0x02),
    ("clearDynamicallyDefinedDataIdentifier", .exact 0x03)]⟩,
  ⟨"ReadDTCInformation.Subfunction", "", [
    ("reportNumberOfDTCByStatusMask", .exact 0x01), ("reportDTCByStatusMask", .exact 0x02),
    ("reportDTCSnapshotIdentification", .exact 0x03), ("reportDTCSnapshotRecordByDTCNumber", .exact 0x04),
    ("reportDTCSnapshotRecordByRecordNumber", .exact 0x05), ("reportDTCExtendedDataRecordByDTCNumber", .exact 0x06),
    ("reportNumberOfDTCBySeverityMaskRecord", .exact 0x07), ("reportDTCBySeverityMaskRecord", .exact 0x08),
    ("reportSeverityInformationOfDTC", .exact 0x09), ("reportSupportedDTCs", .exact 0x0A),
    ("reportFirstTestFailedDTC", .exact 0x0B), ("reportFirstConfirmedDTC", .exact 0x0C),
    ("reportMostRecentTestFailedDTC", .exact 0x0D), ("reportMostRecentConfirmedDTC", .exact 0x0E),
    ("reportMirrorMemoryDTCByStatusMask", .exact 0x0F), ("reportMirrorMemoryDTCExtendedDataRecordByDTCNumber", .exact 0x10),
    ("reportNumberOfMirrorMemoryDTCByStatusMask", .exact 0x11), ("reportNumberOfEmissionsRelatedOBDDTCByStatusMask", .exact 0x12),
    ("reportEmissionsRelatedOBDDTCByStatusMask", .exact 0x13), ("reportDTCFaultDetectionCounter", .exact 0x14),
    ("reportDTCWithPermanentStatus", .exact 0x15), ("reportDTCExtDataRecordByRecordNumber", .exact 0x16),
    ("reportUserDefMemoryDTCByStatusMask", .exact 0x17), ("reportUserDefMemoryDTCSnapshotRecordByDTCNumber", .exact 0x18),
    ("reportUserDefMemoryDTCExtDataRecordByDTCNumber", .exact 0x19), ("reportSupportedDTCExtDataRecord", .exact 0x1A),
    ("reportWWHOBDDTCByMaskRecord", .exact 0x42), ("reportWWHOBDDTCWithPermanentStatus", .exact 0x55),
    ("reportDTCInformationByDTCReadinessGroupIdentifier", .exact 0x56)]⟩,
  ⟨"RequestFileTransfer.ModeOfOperation", "", [
    ("AddFile", .exact 0x01), ("DeleteFile", .exact 0x02), ("ReplaceFile", .exact 0x03), ("ReadFile", .exact 0x04),
    ("ReadDir", .exact 0x05), ("ResumeFile", .exact 0x06)]⟩,
  ⟨"Authentication.AuthenticationTask", "", [
    ("deAuthenticate", .exact 0x00), ("verifyCertificateUnidirectional", .exact 0x01),
    ("verifyCertificateBidirectional", .exact 0x02), ("proofOfOwnership", .exact 0x03),
    ("transmitCertificate", .exact 0x04), ("requestChallengeForAuthentication", .exact 0x05),
    ("verifyProofOfOwnershipUnidirectional", .exact 0x06), ("verifyProofOfOwnershipBidirectional", .exact 0x07),
    ("authenticationConfiguration", .exact 0x08)]⟩ ]

/-- the library's table `g` defines every constant of the ISO table with the ISO value (it may define more) -/
def isoDefined (iso g : SubfnTable) : Bool := iso.members.all (fun m => g.members.contains m)

/-- the lookup over the library's table `g` answers every ISO value (every value of an ISO range) with the ISO name -/
def isoNamed (iso g : SubfnTable) : Bool :=
  iso.members.all fun m =>
    match m.2 with
    | .exact v => subfnName g v == m.1
    | .range lo hi => (List.range (hi + 1 - lo)).all fun i => subfnName g (lo + i) == m.1

/-- every ISO table has its counterpart (same qualified class name) among the library's tables `gs` -/
def isoTied (gs : List SubfnTable) : Bool :=
  isoSubfn.all fun t =>
    match gs.find? (fun g => g.cls == t.cls) with
    | some g => isoDefined t g && isoNamed t g
    | none => false

/-- DTCFormatIdentifier values of ISO 14229-1 (2006 name and 2013 / 2020 name for 0x00), as the library spells them -/
def isoDtcFormat : Consts := [
  ("ISO15031_6", 0x00), ("SAE_J2012_DA_DTCFormat_00", 0x00), ("ISO14229_1", 0x01), ("SAE_J1939_73", 0x02),
  ("ISO11992_4", 0x03), ("SAE_J2012_DA_DTCFormat_04", 0x04)]

/-- FunctionalGroupIdentifier values of ISO 14229-1 Annex D (table D.15), as the library spells them -/
def isoFunctionalGroup : Consts := [("EMISSIONS_SYSTEM_GROUP", 0x33), ("SAFETY_SYSTEM_GROUP", 0xD0), ("VOBD_SYSTEM", 0xFE)]

/-- names of all constants (of a name-sorted constant list) whose value is `c` -/
def namesFor (t : Consts) (c : Nat) : List String := (t.filter (fun m => m.2 == c)).map (·.1)

end Uds.Spec
