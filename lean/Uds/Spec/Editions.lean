import Uds.Basic
/-
  Spec for C18: which request features exist in which edition of ISO 14229-1.
-/
namespace Uds.Spec

def editions : List Nat := [2006, 2013, 2020]

/-- ReadDTCInformation subfunctions introduced by the 2020 edition (user-defined memory, extended data
    by record number, supported ext. data records, WWH-OBD, readiness group) -/
def dtcSubfn2020 : List Nat := [0x16, 0x17, 0x18, 0x19, 0x1A, 0x42, 0x55, 0x56]

/-- ReadDTCInformation subfunctions of ISO 14229-1:2020, table 315 (those the library defines) -/
def dtcSubfnDefined : List Nat :=
  [0x01, 0x02, 0x03, 0x04, 0x05, 0x06, 0x07, 0x08, 0x09, 0x0A, 0x0B, 0x0C, 0x0D, 0x0E, 0x0F, 0x10, 0x11, 0x12, 0x13, 0x14, 0x15,
   0x16, 0x17, 0x18, 0x19, 0x1A, 0x42, 0x55, 0x56]

/-- a ReadDTCInformation subfunction byte may be requested under edition `v` -/
def dtcSubfnAllowed (sf : Nat) (v : Nat) : Bool := dtcSubfnDefined.contains sf && (!dtcSubfn2020.contains sf || v ≥ 2020)

/-- MemorySelection on ClearDiagnosticInformation exists from 2020 -/
def clearMemSelAllowed (v : Nat) : Bool := v ≥ 2020

/-- nodeIdentificationNumber: required exactly for the enhanced-address control types (4, 5) from 2013,
    not allowed otherwise -/
def nodeIdRequired (ct : Nat) (v : Nat) : Bool := v ≥ 2013 && (ct == 4 || ct == 5)

/-- a positive DiagnosticSessionControl reply carries echo + 4 timing bytes from 2013; before, any length ≥ 1 -/
def sessionReplyLenOk (len : Nat) (v : Nat) : Bool := if v ≥ 2013 then len == 5 else len ≥ 1

end Uds.Spec
