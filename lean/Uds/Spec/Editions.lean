import Uds.Basic
/-
  Spec for C18: which request features exist in which edition of ISO 14229-1.
-/
namespace Uds.Spec

def editions : List Nat := [2006, 2013, 2020]

/-- ReadDTCInformation subfunctions introduced by the 2020 edition (user-defined memory, extended data
    by record number, supported ext. data records, WWH-OBD, readiness group) -/
def dtcSubfn2020 : List Nat := [0x16, 0x17, 0x18, 0x19, 0x1A, 0x42, 0x55, 0x56]

/-- a ReadDTCInformation subfunction byte may be requested under edition `v` -/
def dtcSubfnAllowed (sf : Nat) (v : Nat) : Bool := 1 ≤ sf && sf ≤ 0xFF && (!dtcSubfn2020.contains sf || v ≥ 2020)

/-- MemorySelection on ClearDiagnosticInformation exists from 2020 -/
def clearMemSelAllowed (v : Nat) : Bool := v ≥ 2020

/-- nodeIdentificationNumber: required exactly for the enhanced-address control types (4, 5) from 2013,
    not allowed otherwise -/
def nodeIdRequired (ct : Nat) (v : Nat) : Bool := v ≥ 2013 && (ct == 4 || ct == 5)

/-- a positive DiagnosticSessionControl reply carries echo + 4 timing bytes from 2013; before, any length ≥ 1 -/
def sessionReplyLenOk (len : Nat) (v : Nat) : Bool := if v ≥ 2013 then len == 5 else len ≥ 1

end Uds.Spec
