import Uds.Lemmas.Bytes
/-
  A tiny parser vocabulary for the Spec decoders (ISO 14229-1 layouts), with the lemmas that make
  `decode (encode v) = v` proofs a matter of rewriting.  Independent of the Model.
-/
namespace Uds.Spec

abbrev Parser (α : Type) := Bytes → Option (α × Bytes)

/-- `n` bytes, verbatim -/
def pTake (n : Nat) : Parser Bytes := fun bs => if bs.length < n then none else some (bs.take n, bs.drop n)

/-- an unsigned big-endian integer on `w` bytes -/
def pBE (w : Nat) : Parser Nat := fun bs => if bs.length < w then none else some (fromBE (bs.take w), bs.drop w)

/-- one byte -/
def pU8 : Parser Nat := pBE 1

/-- everything that is left -/
def pRest : Parser Bytes := fun bs => some (bs, [])

/-- a 16-bit length followed by that many bytes -/
def pLen16 : Parser Bytes := fun bs =>
  match pBE 2 bs with
  | none => none
  | some (n, r) => pTake n r

theorem pTake_append (xs r : Bytes) : pTake xs.length (xs ++ r) = some (xs, r) := by
  simp [pTake]

theorem pTake_append' {n : Nat} (xs r : Bytes) (h : xs.length = n) : pTake n (xs ++ r) = some (xs, r) := by
  subst h; exact pTake_append xs r

theorem pBE_toBE (w v : Nat) (r : Bytes) (h : v < 256 ^ w) : pBE w (toBE w v ++ r) = some (v, r) := by
  simp [pBE, fromBE_toBE_of_lt h]

theorem pU8_cons (b : UInt8) (r : Bytes) : pU8 (b :: r) = some (b.toNat, r) := by
  simp [pU8, pBE, fromBE]

theorem pRest_eq (bs : Bytes) : pRest bs = some (bs, []) := rfl

theorem pLen16_append (xs r : Bytes) (h : xs.length < 65536) : pLen16 (toBE 2 xs.length ++ xs ++ r) = some (xs, r) := by
  unfold pLen16
  rw [List.append_assoc, pBE_toBE 2 xs.length (xs ++ r) (by simpa using h)]
  exact pTake_append xs r

end Uds.Spec
