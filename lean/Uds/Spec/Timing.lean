import Uds.Basic
/-
  Spec for C05/C10: the waiting windows as the property states them, independent of the code's control flow.
-/
namespace Uds.Spec

/-- the window allowed for one wait that starts at `now` when the applicable single-reply limit is
    `single` (P2 for the first wait, P2* after a response-pending) and the request as a whole must end by
    `deadline` (absent when the overall timeout is disabled): never more than `single`, never past the deadline -/
def win (deadline : Option Nat) (now single : Nat) : Nat :=
  match deadline with
  | none => single
  | some d => min single (d - now)

/-- limit for the first reply: `min(P2, request timeout)`; a per-call timeout replaces both -/
def firstSingle (requestTimeout : Option Nat) (p2 : Nat) (perCall : Option Nat) : Nat :=
  match perCall with
  | some τ => τ
  | none => match requestTimeout with | some o => min p2 o | none => p2

/-- the overall deadline, measured from transmission (instant 0) -/
def deadline (requestTimeout : Option Nat) (perCall : Option Nat) : Option Nat :=
  match perCall with
  | some τ => some τ
  | none => requestTimeout

/-- a schedule of `k` response-pending arrivals followed by a final arrival is *in time* when every
    arrival falls inside the window of the wait it answers -/
def InTime (dl : Option Nat) (p2star : Nat) : (now single : Nat) → List Nat → Nat → Prop
  | now, single, [], fin => now ≤ fin ∧ fin ≤ now + win dl now single
  | now, single, a :: as, fin => now ≤ a ∧ a ≤ now + win dl now single ∧ InTime dl p2star a p2star as fin

/-- the first `pend.length` arrivals are in time and then nothing arrives inside the next window -/
def Silent (dl : Option Nat) (p2star : Nat) : (now single : Nat) → List Nat → Option Nat → Prop
  | now, single, [], next => ∀ n, next = some n → now + win dl now single < n
  | now, single, a :: as, next => now ≤ a ∧ a ≤ now + win dl now single ∧ Silent dl p2star a p2star as next

/-- the instant at which the last wait of a silent schedule gives up, and the window used -/
def lastWait (dl : Option Nat) (p2star : Nat) : (now single : Nat) → List Nat → Nat × Nat
  | now, single, [] => (now, win dl now single)
  | _, _, a :: as => lastWait dl p2star a p2star as

end Uds.Spec
