import Uds.Model.DecodeDtc
/-
  Reference encoder of positive responses (ISO 14229-1:2020 response tables), for the record-structured parts.
  `Props/C02` proves `interpret (encode v) = v`; `Props/C11` what happens when zero bytes follow `encode v`.
  (The interpreted-data types are shared with the Model; the encoders are written from the standard.)
-/
namespace Uds.Spec
open Uds Uds.Model

/-- DTCAndStatusRecord: 3-byte DTC, status byte -/
def encRec4 (r : DtcRec) : Bytes := toBE 3 r.id ++ [UInt8.ofNat r.status]

/-- DTCAndSeverityRecord: severity, functional unit, 3-byte DTC, status -/
def encRec6 (r : DtcRec) : Bytes := [UInt8.ofNat r.severity, UInt8.ofNat (r.funit.getD 0)] ++ toBE 3 r.id ++ [UInt8.ofNat r.status]

def encRec (six : Bool) (r : DtcRec) : Bytes := if six then encRec6 r else encRec4 r

def encRecs (six : Bool) : List DtcRec → Bytes
  | [] => []
  | r :: rs => encRec six r ++ encRecs six rs

/-- DTCFaultDetectionCounterRecord: 3-byte DTC, counter -/
def encFault (r : DtcRec) : Bytes := toBE 3 r.id ++ [UInt8.ofNat (r.fault.getD 0)]

def encFaults : List DtcRec → Bytes
  | [] => []
  | r :: rs => encFault r ++ encFaults rs

/-- WWH-OBD record: severity, 3-byte DTC, status -/
def encWwh (r : DtcRec) : Bytes := [UInt8.ofNat r.severity] ++ toBE 3 r.id ++ [UInt8.ofNat r.status]

def encWwhs : List DtcRec → Bytes
  | [] => []
  | r :: rs => encWwh r ++ encWwhs rs

/-- DTCExtDataRecord list of one DTC: record number, `size` bytes of data -/
def encExts : List (Nat × Bytes) → Bytes
  | [] => []
  | (n, b) :: rest => [UInt8.ofNat n] ++ b ++ encExts rest

/-- dataIdentifier / dataRecord pairs of a ReadDataByIdentifier response -/
def encDids : List (Nat × Bytes) → Bytes
  | [] => []
  | (d, v) :: rest => toBE 2 d ++ v ++ encDids rest

/-- length-prefixed unsigned integer of RequestDownload / RequestUpload: `lengthFormatIdentifier` (high nibble = byte count), value -/
def encMaxLen (w v : Nat) : Bytes := [UInt8.ofNat (w * 16)] ++ toBE w v

/-- 16-bit length + bytes (Authentication parameters) -/
def encLen16 (b : Bytes) : Bytes := toBE 2 b.length ++ b

def encLen16s : List (String × Bytes) → Bytes
  | [] => []
  | (_, b) :: rest => encLen16 b ++ encLen16s rest

end Uds.Spec
