import Driver.Proto
import Uds.Spec.Names
import Uds.Model.Tables
namespace Drv.Names
open Uds Uds.Spec Proto

def parseMember (s : String) : Except String (String × Member) :=
  match s.splitOn ":" with
  | [n, "e", v] => match v.toNat? with | some x => pure (n, .exact x) | none => throw "bad member"
  | [n, "r", lo, hi] => match lo.toNat?, hi.toNat? with
    | some a, some b => pure (n, .range a b) | _, _ => throw "bad member"
  | _ => throw s!"bad member {s}"

def hexStr (a : Args) (k : String) : Except String String := do
  let b ← getHex a k
  match String.fromUTF8? (ByteArray.mk b.toArray) with
  | some s => pure s
  | none => throw "bad utf8"

def run (cmd : String) (a : Args) : Except String String := do
  match cmd with
  | "spec.did" => pure ((segLookup didSegs (← getNat a "id")).getD "<None>")
  | "spec.rid" => pure ((segLookup ridSegs (← getNat a "id")).getD "<None>")
  | "spec.didrange" =>   -- answer a whole range at once: names joined by ','
    let lo ← getNat a "lo"; let hi ← getNat a "hi"
    let t := if (← getStr a "t") == "did" then didSegs else ridSegs
    pure (String.intercalate "," ((List.range (hi - lo)).map fun i => (segLookup t (lo + i)).getD "<None>"))
  | "spec.subfn" =>
    let pretty ← hexStr a "pretty"
    let ms ← getStr a "members"
    let members ← if ms == "-" then pure [] else (ms.splitOn ",").mapM parseMember
    let t : SubfnTable := ⟨"", pretty, members⟩
    pure (String.intercalate "," ((List.range 256).map fun v => subfnName t v))
  | "spec.iso" =>     -- the ISO sub-function constant tables: cls|name:e:v,name:r:lo:hi;...
    pure (String.intercalate ";" (isoSubfn.map fun t =>
      t.cls ++ "|" ++ String.intercalate "," (t.members.map fun m =>
        match m.2 with
        | .exact v => s!"{m.1}:e:{v}"
        | .range lo hi => s!"{m.1}:r:{lo}:{hi}"))
      ++ ";Dtc.Format|" ++ String.intercalate "," (isoDtcFormat.map fun c => s!"{c.1}:e:{c.2}")
      ++ ";Dtc.FunctionalGroupIdentifiers|" ++ String.intercalate "," (isoFunctionalGroup.map fun c => s!"{c.1}:e:{c.2}"))
  | "spec.first" =>   -- first constant with a value, over 0..255 (Dtc.Format)
    let ms ← getStr a "members"
    let members ← if ms == "-" then pure [] else (ms.splitOn ",").mapM parseMember
    let cs : Consts := members.filterMap fun m => match m.2 with | .exact v => some (m.1, v) | _ => none
    pure (String.intercalate "," ((List.range 256).map fun v => ((namesFor cs v).head?).getD "<None>"))
  | _ => throw s!"unknown command {cmd}"

end Drv.Names
