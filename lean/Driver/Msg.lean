import Driver.Proto
import Uds.Model.Msg
namespace Drv.Msg
open Uds Uds.Model Proto

def svcByName (n : String) : Except String Service :=
  match services.find? (·.name == n) with | some s => pure s | none => throw s!"unknown service {n}"

def showReq (r : Request) : String :=
  s!"svc={(r.service.map (·.name)).getD "-"} sf={showOptNat r.subfunction} spr={showBool r.spr} data={showOptHex r.data}"

def showResp (r : Response) : String :=
  s!"valid={showBool r.valid} svc={(r.service.map (·.name)).getD "-"} positive={showBool r.positive} code={showOptNat r.code} name={if r.codeName.isEmpty then "-" else r.codeName} reason={showBool (!r.reason.isEmpty)} data={showHex r.data}"

def showPy (r : Py Bytes) : String :=
  match r with | .ok b => s!"ok {showHex b}" | .error e => s!"err {e.tag}"

def run (cmd : String) (a : Args) : Except String String := do
  match cmd with
  | "req.build" =>
    let s ← svcByName (← getStr a "svc")
    let sf ← getOptNat a "sf"
    let spr ← getBool a "spr"
    let data ← getOptHex a "data"
    let ovr ← getOptBool a "ovr"
    pure (showPy (do let r ← Request.mk' s sf spr data; r.getPayload ovr))
  | "req.parse" =>
    let p ← getHex a "p"
    let r := Request.fromPayload p
    pure (showReq r ++ " re=" ++ showPy r.getPayload)
  | "resp.build" =>
    let s ← svcByName (← getStr a "svc")
    let c ← getNat a "code"
    let data ← getHex a "data"
    match Response.mk' s c data with
    | .error e => pure s!"err {e.tag}"
    | .ok r => pure (showResp r ++ " payload=" ++ showPy r.getPayload)
  | "resp.parse" =>
    let p ← getHex a "p"
    let r := Response.fromPayload p
    pure (showResp r ++ " re=" ++ showPy r.getPayload)
  | "rc" =>
    let c ← getNat a "c"
    pure s!"name={rcName c} neg={showBool (isNegative c)}"
  | "svc.req" =>
    let i ← getNat a "id"
    pure (((fromRequestId i).map (·.name)).getD "-")
  | "svc.resp" =>
    let i ← getNat a "id"
    pure (((fromResponseId i).map (·.name)).getD "-")
  | _ => throw s!"unknown command {cmd}"

end Drv.Msg
