import Driver.Proto
import Driver.Msg
import Driver.Names
import Driver.Codecs
import Driver.Send
import Driver.Client
import Driver.Hist
import Driver.Editions
import Driver.Mem
import Driver.Conn
import Driver.Enc
import Driver.Dec
import Driver.Rig
import Driver.DidCodec
/-
  udsdrv: one request per line on stdin, one answer per line on stdout.  Imports Model and Spec only.
-/
open Proto

def dispatch (cmd : String) (a : Args) : Except String String :=
  if cmd.startsWith "req." || cmd.startsWith "resp." || cmd == "rc" || cmd.startsWith "svc." then Drv.Msg.run cmd a
  else if cmd.startsWith "spec.did" || cmd.startsWith "spec.rid" || cmd == "spec.subfn" || cmd == "spec.first" || cmd == "spec.iso" then Drv.Names.run cmd a
  else if cmd.startsWith "codec." then Drv.Codecs.run cmd a
  else if cmd == "send" then Drv.Send.run cmd a
  else if cmd == "deliver" || cmd == "sendd" then Drv.Client.run cmd a
  else if cmd == "hist" then Drv.Hist.run cmd a
  else if cmd.startsWith "ed." then Drv.Editions.run cmd a
  else if cmd.startsWith "ml." then Drv.Mem.run cmd a
  else if cmd == "conn" || cmd == "qconn" then Drv.Conn.run cmd a
  else if cmd == "enc" || cmd == "specdec" then Drv.Enc.run cmd a
  else if cmd == "dec" || cmd == "callw" then Drv.Dec.run cmd a
  else if cmd.startsWith "didc." then Drv.DidCodec.run cmd a
  else throw s!"unknown command {cmd}"

partial def loop (hin hout : IO.FS.Stream) (st : Drv.Rig.St) : IO Unit := do
  let line ← hin.getLine
  if line.isEmpty then return ()
  let (cmd, a) := parseLine line
  let mut st := st
  if cmd == "" then
    hout.putStrLn "bad-op empty"
  else if Drv.Rig.isStateful cmd then
    match Drv.Rig.run st cmd a with
    | .ok (st', s) => st := st'; hout.putStrLn s
    | .error e => hout.putStrLn s!"bad-op {e}"
  else
    match dispatch cmd a with
    | .ok s => hout.putStrLn s
    | .error e => hout.putStrLn s!"bad-op {e}"
  hout.flush
  loop hin hout st

def main : IO Unit := do
  loop (← IO.getStdin) (← IO.getStdout) {}
