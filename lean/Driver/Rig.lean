import Driver.Proto
import Driver.Enc
import Driver.Dec
import Uds.Model.Rig
/-
  The reference ECU behind the line protocol (stateful), and the client model run against its own copy of it.

    ecu.reset                       both ECU copies back to the initial state
    ecu.frame d=<hex>               the frame goes to the *implementation-side* ECU; answer: reply hex or `-`
    ecu.dump                        canonical state of the implementation-side ECU
    rig.call <cfg> k=<kind> …       one client-model call against the *model-side* ECU; answer: outcome
    rig.dump                        canonical state of the model-side ECU
-/
namespace Drv.Rig
open Uds Uds.Model Uds.Spec Proto Drv.Enc

structure St where
  impl : Ecu := {}
  model : Ecu := {}

def insertSorted (x : Nat × UInt8) : List (Nat × UInt8) → List (Nat × UInt8)
  | [] => [x]
  | y :: ys => if x.1 < y.1 then x :: y :: ys else y :: insertSorted x ys

/-- latest value of every written address, ascending -/
def memCanon (m : Mem) : List (Nat × UInt8) :=
  let latest := m.foldl (fun acc e => if acc.any (·.1 == e.1) then acc else acc ++ [e]) []
  latest.foldl (fun acc e => insertSorted e acc) []

/-- runs of consecutive addresses: `addr:hex` -/
def memRuns : List (Nat × UInt8) → List (Nat × Bytes) → List (Nat × Bytes)
  | [], acc => acc.reverse
  | (a, b) :: rest, [] => memRuns rest [(a, [b])]
  | (a, b) :: rest, (s, bs) :: acc => if a == s + bs.length then memRuns rest ((s, bs ++ [b]) :: acc) else memRuns rest ((a, [b]) :: (s, bs) :: acc)

def didsCanon (l : List (Nat × Bytes)) : List (Nat × Bytes) :=
  let latest := l.foldl (fun acc e => if acc.any (·.1 == e.1) then acc else acc ++ [e]) []
  let rec ins (x : Nat × Bytes) : List (Nat × Bytes) → List (Nat × Bytes)
    | [] => [x]
    | y :: ys => if x.1 < y.1 then x :: y :: ys else y :: ins x ys
  latest.foldl (fun acc e => ins e acc) []

def dump (e : Ecu) : String :=
  let ds := (didsCanon e.dids).map fun (k, v) => s!"{k}:{showHex v}"
  let ms := (memRuns (memCanon e.mem) []).map fun (a, bs) => s!"{a}:{hex bs}"
  let x := match e.xfer with
    | none => "-"
    | some x => s!"{x.addr}/{x.size}/{x.next}/{showHex x.buf}/{showBool x.upload}/{x.sent}"
  s!"dids={if ds.isEmpty then "-" else ",".intercalate ds} mem={if ms.isEmpty then "-" else ",".intercalate ms} xfer={x}"

def parseCfg (a : Args) : Except String RigCfg := do
  pure { dids := ← parseDidCfg a, tol := ← getBool a "tol", caf := ← getOptInt a "caf", cmf := ← getOptInt a "cmf", std := ← getNat a "std" }

def parseCall (a : Args) : Except String RCall := do
  match ← getStr a "k" with
  | "wdbi" => pure (.wdbi (← getInt a "did") (← getHex a "v"))
  | "rdbi" => pure (.rdbi (← parseIntList (← getStr a "dids")))
  | "wmem" => pure (.writeMem (← getInt a "a") (← getInt a "s") (← getOptInt a "af") (← getOptInt a "mf") (← getHex a "data"))
  | "rmem" => pure (.readMem (← getInt a "a") (← getInt a "s") (← getOptInt a "af") (← getOptInt a "mf"))
  | "xfer" => pure (.xferReq (← getBool a "up") (← getInt a "a") (← getInt a "s") (← getOptInt a "af") (← getOptInt a "mf") (← getNat a "dfi"))
  | "simple" => do pure (.simple (← Drv.Hist.parseEntry (← getStr a "entry")))
  | k => throw s!"unknown call kind {k}"

def showOut (r : Py RData) : String :=
  match r with
  | .ok (.sd s) => "ok " ++ Drv.Dec.showSData s
  | .ok (.wm e) => s!"ok alfid={e.alfid} a={e.address} s={e.size}"
  | .error e => e.tag

def isStateful (cmd : String) : Bool := cmd.startsWith "ecu." || cmd.startsWith "rig."

def run (st : St) (cmd : String) (a : Args) : Except String (St × String) := do
  match cmd with
  | "ecu.reset" => pure ({}, "ok")
  | "ecu.frame" =>
    let d ← getHex a "d"
    let out := st.impl.step d
    pure ({ st with impl := out.1 }, showHex out.2)
  | "ecu.dump" => pure (st, dump st.impl)
  | "rig.dump" => pure (st, dump st.model)
  | "rig.call" =>
    let cfg ← parseCfg a
    let c ← parseCall a
    let late := (get a "late") == some "1"
    let out := if late then rigStepLate cfg st.model c else rigStep cfg st.model c
    pure ({ st with model := out.1 }, showOut out.2)
  | _ => throw s!"unknown command {cmd}"

end Drv.Rig
