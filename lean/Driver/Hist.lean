import Driver.Proto
import Driver.Client
import Uds.Model.History
namespace Drv.Hist
open Uds Uds.Model Proto

def optHex (s : String) : Except String (Option Bytes) :=
  if s == "-" then pure none else if s == "." then pure (some []) else
  match unhexList s.toList with | some b => pure (some b) | none => throw s!"bad hex {s}"

def reqHex (s : String) : Except String Bytes := do
  match ← optHex s with | some b => pure b | none => pure []

def int (s : String) : Except String Int :=
  match s.toInt? with | some n => pure n | none => throw s!"bad int {s}"

def optInt (s : String) : Except String (Option Int) :=
  if s == "-" then pure none else do let n ← int s; pure (some n)

def nat (s : String) : Except String Nat :=
  match s.toNat? with | some n => pure n | none => throw s!"bad nat {s}"

def parseArr (s : String) : Except String (List Frame) :=
  if s == "-" then pure []
  else (s.splitOn ",").mapM fun x =>
    match x.splitOn "~" with
    | [t, h] => match t.toNat?, unhex h with
      | some n, some b => pure ⟨n, b⟩
      | _, _ => throw s!"bad arrival {x}"
    | _ => throw s!"bad arrival {x}"

def parseBaud (rate ty : String) : Except String (Option Baudrate) :=
  if rate == "-" then pure none else do
    let r ← nat rate
    -- "a" = Baudrate.Type.Auto: the type the class guesses (a standard rate is Fixed, one byte an Identifier, else Specific)
    let t : BaudType := if ty == "f" then .fixed else if ty == "s" then .specific else if ty == "i" then .identifier
      else if (baudFixedId r).isSome then .fixed else if r ≤ 0xFF then .identifier else .specific
    pure (some ⟨r, t⟩)

def parseEntry (s : String) : Except String Entry :=
  match s.splitOn "/" with
  | ["cs", n] => do pure (.changeSession (← int n))
  | ["er", t] => do pure (.ecuReset (← int t))
  | ["rs", l, d] => do pure (.requestSeed (← int l) (← reqHex d))
  | ["sk", l, d] => do pure (.sendKey (← int l) (← reqHex d))
  | ["tp"] => pure .testerPresent
  | ["cc", ct, c, n] => do pure (.commControl (← int ct) (← nat c) (← optInt n))
  | ["at", t, r] => do pure (.accessTiming (← int t) (← optHex r))
  | ["cd", t, d] => do pure (.controlDtc (← int t) (← optHex d))
  | ["lc", ct, r, ty] => do pure (.linkControl (← int ct) (← parseBaud r ty))
  | ["rc", rid, ct, d] => do pure (.routineControl (← int rid) (← int ct) (← optHex d))
  | ["td", q, d] => do pure (.transferData (← int q) (← optHex d))
  | ["te", d] => do pure (.transferExit (← optHex d))
  | ["cl", g, m] => do pure (.clearDtc (← int g) (← optInt m))
  | _ => throw s!"bad entry {s}"

def parseOp (s : String) : Except String HOp :=
  match s.splitOn "@" with
  | ["call", e, arr] => do pure (.call (← parseEntry e) (← parseArr arr))
  | ["unlock", l, sp, a1, a2] => do pure (.unlock (← int l) (← reqHex sp) (← parseArr a1) (← parseArr a2))
  | ["espr", w] => pure (if w == "b" then .enterSprBare else .enterSpr (w == "1"))
  | ["xspr"] => pure .exitSpr
  | ["eovr", m] => do
    match ← Drv.Send.parseModifier (m.replace "~" ":") with
    | some m => pure (.enterOvr m)
    | none => throw "bad modifier"
  | ["xovr"] => pure .exitOvr
  | ["std", v] => do pure (.setStd (← nat v))
  | ["ust", b] => pure (.setUseServerTiming (b == "1"))
  | ["sw", x] => do pure (.setSwitches (← Drv.Client.parseSw x))
  | ["stray", h] => do pure (.stray (← reqHex h))
  | _ => throw s!"bad op {s}"

def showOut (o : HOut) : String :=
  match o.outer with
  | none => "-"
  | some out =>
    s!"log={Drv.Send.showLog o.log} {Drv.Client.showOuter out}" ++
      (if o.algoCalls.isEmpty then "" else " algo=" ++ String.intercalate "," (o.algoCalls.map fun c => s!"{showHex c.seed}/{c.level}"))

def run (cmd : String) (a : Args) : Except String String := do
  match cmd with
  | "hist" =>
    let send ← Drv.Send.parseCfg a
    let cfg : CallCfg := { send := send, std := ← getNat a "std", useServerTiming := ← getBool a "ust",
                           msNum := ← getNat a "msn", msDen := ← getNat a "msd" }
    let sw ← Drv.Client.parseSw (← getStr a "sw")
    let opsS ← getStr a "ops"
    let ops ← if opsS == "-" then pure [] else (opsS.splitOn ";").mapM parseOp
    let s0 : HState := { cfg := cfg, sw := sw }
    let (s, outs) := hrun s0 ops
    let timing := match s.cs.timing with | some (x, y) => s!"{x},{y}" | none => "-"
    pure (String.intercalate " | " (outs.map showOut) ++
      s!" || timing={timing} spr={showBool s.cs.spr.enabled} ovr={showBool s.cs.override.isSome} rxq={s.rxq.length}")
  | _ => throw s!"unknown command {cmd}"

end Drv.Hist
