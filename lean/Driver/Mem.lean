import Driver.Proto
import Driver.Msg
import Uds.Model.MemLoc
import Uds.Spec.Mem
namespace Drv.Mem
open Uds Uds.Model Proto

def showOptInt : Option Int → String | none => "-" | some n => toString n

/-- construct + the client's two set_format_if_none calls; returns the object as the caller sees it afterwards
    (rolled back by the failing call) and the ready object if everything succeeded -/
def prepare (a s : Int) (af mf caf cmf : Option Int) : Option (MemLoc × Option MemLoc) :=
  match MemLoc.new a s af mf with
  | .error _ => none
  | .ok ml =>
    match ml.setFormatIfNone caf none with
    | .error _ => some (ml, none)
    | .ok ml1 =>
      match ml1.setFormatIfNone none cmf with
      | .error _ => some (ml1, none)
      | .ok ml2 => some (ml2, some ml2)

def showObj (m : MemLoc) : String := s!"af={showOptInt m.af} mf={showOptInt m.mf}"

def parseEntries (s : String) : Except String (List (Int × Int × Option Int × Option Int)) :=
  if s == "-" then pure [] else
  (s.splitOn ";").mapM fun e =>
    match e.splitOn ":" with
    | [a, b, c, d] =>
      match a.toInt?, b.toInt? with
      | some a, some b =>
        let p (x : String) : Option (Option Int) := if x == "-" then some none else x.toInt?.map some
        match p c, p d with
        | some c, some d => pure (a, b, c, d)
        | _, _ => throw s!"bad entry {e}"
      | _, _ => throw s!"bad entry {e}"
    | _ => throw s!"bad entry {e}"

def run (cmd : String) (a : Args) : Except String String := do
  match cmd with
  | "ml.req" =>
    let kind ← getStr a "kind"
    let addr ← getInt a "a"
    let size ← getInt a "s"
    let af ← getOptInt a "af"
    let mf ← getOptInt a "mf"
    let caf ← getOptInt a "caf"
    let cmf ← getOptInt a "cmf"
    let data ← getHex a "data"
    let dfi ← getNat a "dfi"
    match prepare addr size af mf caf cmf with
    | none => pure "reject"
    | some (obj, none) => pure s!"reject {showObj obj}"
    | some (obj, some ml) =>
      let req := match kind with
        | "read" => readMemMakeRequest ml
        | "write" => writeMemMakeRequest ml data
        | "download" => requestXferMakeRequest false ml dfi
        | _ => requestXferMakeRequest true ml dfi
      match req >>= fun r => r.getPayload with
      | .error _ => pure s!"reject {showObj obj}"
      | .ok p => pure s!"sent:{hex p} {showObj obj}"
  | "ml.echo" =>   -- write_memory_by_address fed a positive reply with data `d`
    let addr ← getInt a "a"
    let size ← getInt a "s"
    let af ← getOptInt a "af"
    let mf ← getOptInt a "mf"
    let caf ← getOptInt a "caf"
    let cmf ← getOptInt a "cmf"
    let d ← getHex a "d"
    match prepare addr size af mf caf cmf with
    | some (_, some ml) =>
      match ml.wire with
      | .error _ => pure "reject"
      | .ok _ =>
        match writeMemPost ml d with
        | .ok e => pure s!"ok alfid={e.alfid} a={e.address} s={e.size}"
        | .error e => pure e.tag
    | _ => pure "reject"
  | "ml.ddd" =>
    let did ← getInt a "did"
    let caf ← getOptInt a "caf"
    let cmf ← getOptInt a "cmf"
    let es ← parseEntries (← getStr a "entries")
    match es.mapM (fun (x : Int × Int × Option Int × Option Int) => MemLoc.new x.1 x.2.1 x.2.2.1 x.2.2.2) with
    | .error _ => pure "reject"
    | .ok mls =>
      match applyConfigAll mls caf cmf with
      | .error _ => pure "reject"
      | .ok mls' =>
        match dddByMemMakeRequest did mls' >>= fun r => r.getPayload with
        | .error _ => pure "reject"
        | .ok p => pure s!"sent:{hex p}"
  | "ml.spec" =>   -- independent Annex-H decoder
    let d ← getHex a "d"
    match Spec.decodeMem d with
    | none => pure "none"
    | some f => pure s!"al={f.addrLen} sl={f.sizeLen} a={f.address} s={f.size} rest={showHex f.rest}"
  | _ => throw s!"unknown command {cmd}"

end Drv.Mem
