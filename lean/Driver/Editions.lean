import Driver.Proto
import Uds.Model.Editions
namespace Drv.Editions
open Uds Uds.Model Proto

def run (cmd : String) (a : Args) : Except String String := do
  match cmd with
  | "ed.hist" =>
    let c ← getNat a "c"
    let changes ← getNatList a "changes"
    let (final, outs) := changes.foldl (fun (acc : Nat × List String) v =>
      let (st, raised) := setEdition acc.1 v
      (st, acc.2 ++ [s!"{st}:{showBool raised}"])) (c, [])
    pure (s!"{final} " ++ String.intercalate "," outs)
  | "ed.cfgs" =>
    -- c=<k:v,…> the configuration before; d=<k:v,…> the argument of set_configs (in its order); answer: raised flag and the value of every key afterwards, keys sorted
    let parse (t : String) : Except String (List (String × Int)) :=
      if t == "-" then pure [] else (t.splitOn ",").mapM fun kv =>
        match kv.splitOn ":" with
        | [k, v] => match v.toInt? with | some n => pure (k, n) | none => throw s!"bad value {kv}"
        | _ => throw s!"bad pair {kv}"
    let c ← parse (← getStr a "c")
    let d ← parse (← getStr a "d")
    let (c', raised) := setConfigs c d
    let keys := ((c ++ d).map (·.1)).eraseDups
    let sorted := keys.toArray.qsort (· < ·) |>.toList
    let shown := sorted.map fun k => s!"{k}:{match Config.get c' k with | some v => toString v | none => "-"}"
    pure (s!"raised={showBool raised} " ++ String.intercalate "," shown)
  | "ed.init" => pure (match initEdition (← getNat a "v") with | some v => s!"ok:{v}" | none => "config")
  | _ => throw s!"unknown command {cmd}"

end Drv.Editions
