import Driver.Proto
import Uds.Model.Editions
namespace Drv.Editions
open Uds Uds.Model Proto

def run (cmd : String) (a : Args) : Except String String := do
  match cmd with
  | "ed.hist" =>
    let c ← getNat a "c"
    let changes ← getNatList a "changes"
    let (final, outs) := changes.foldl (fun (acc : Nat × List String) v =>
      let (st, raised) := setEdition acc.1 v
      (st, acc.2 ++ [s!"{st}:{showBool raised}"])) (c, [])
    pure (s!"{final} " ++ String.intercalate "," outs)
  | "ed.init" => pure (match initEdition (← getNat a "v") with | some v => s!"ok:{v}" | none => "config")
  | _ => throw s!"unknown command {cmd}"

end Drv.Editions
