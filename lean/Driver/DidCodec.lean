import Driver.Proto
import Uds.Model.DidCodec
/-
  didc.enc / didc.dec / didc.len — the pack-string codec and AsciiCodec.
    c = p<hex of the pack string's characters> | a<n>
    v = o<int> | t<int,int,…> (t- = empty tuple) | s<code point,…> (s- = empty text)
-/
namespace Drv.DidCodec
open Uds Uds.Model Proto

def parseCodec (s : String) : Except String Codec :=
  match s.toList with
  | 'p' :: rest =>
    match unhex (String.ofList rest) with
    | some b => pure (.pack (String.ofList (b.map (fun x => Char.ofNat x.toNat))))
    | none => throw s!"bad codec {s}"
  | 'a' :: rest =>
    match (String.ofList rest).toNat? with
    | some n => pure (.ascii n)
    | none => throw s!"bad codec {s}"
  | _ => throw s!"bad codec {s}"

def parseInts (s : String) : Except String (List Int) :=
  if s == "-" then pure [] else (s.splitOn ",").mapM fun x => match x.toInt? with | some n => pure n | none => throw s!"bad int list {s}"

def parseVal (s : String) : Except String Val :=
  match s.toList with
  | 'o' :: rest => match (String.ofList rest).toInt? with | some n => pure (.one n) | none => throw s!"bad value {s}"
  | 't' :: rest => do let l ← parseInts (String.ofList rest); pure (.tuple l)
  | 's' :: rest => do let l ← parseInts (String.ofList rest); pure (.str (l.map Int.toNat))
  | _ => throw s!"bad value {s}"

def showInts (l : List Int) : String := if l.isEmpty then "-" else ",".intercalate (l.map toString)

def showVal : Val → String
  | .one x => s!"o{x}"
  | .tuple l => s!"t{showInts l}"
  | .str cs => s!"s{showInts (cs.map Int.ofNat)}"

def run (cmd : String) (a : Args) : Except String String := do
  let c ← parseCodec (← getStr a "c")
  match c with
  | .pack s => if (parsePackStr s).isNone then return "unsupported" else pure ()
  | _ => pure ()
  if cmd == "didc.enc" then
    let v ← parseVal (← getStr a "v")
    match c.encode v with
    | .ok b => pure s!"ok {showHex b}"
    | .error e => pure s!"err {e.tag}"
  else if cmd == "didc.dec" then
    let d ← getHex a "d"
    match c.decode d with
    | .ok v => pure s!"ok {showVal v}"
    | .error e => pure s!"err {e.tag}"
  else if cmd == "didc.len" then
    match c.len with
    | .ok n => pure s!"ok {n}"
    | .error e => pure s!"err {e.tag}"
  else throw s!"unknown command {cmd}"

end Drv.DidCodec
