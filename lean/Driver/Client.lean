import Driver.Proto
import Driver.Msg
import Driver.Send
import Uds.Model.Client
namespace Drv.Client
open Uds Uds.Model Proto

def parseSw (s : String) : Except String Switches :=
  match s.toList with
  | [a, b, c] => pure ⟨a == '1', b == '1', c == '1'⟩
  | _ => throw s!"bad switches {s}"

def showVerdict : Verdict → String
  | .ok => "ok" | .none => "none" | .negative c => s!"negative:{c}" | .invalid => "invalid"
  | .unexpected => "unexpected" | .other e => s!"other:{e.tag}"

def showOuter (o : Outer) : String :=
  let (how, r, u) := match o with | .ret r u => ("ret", r, u) | .exc _ r u => ("exc", r, u)
  let flags := match r with
    | some r => s!"p{showBool r.positive}v{showBool r.valid}u{showBool u} code={showOptNat r.code} data={showHex r.data}"
    | none => "-"
  s!"how={how} verdict={showVerdict o.verdict} flags={flags}"

def parseErr (s : String) : PyErr :=
  if s.startsWith "negative:" then .negative ((s.drop 9).toNat!)
  else match s with
    | "invalid" => .invalid | "unexpected" => .unexpected | "timeout" => .timeout | "config" => .config
    | "notimpl" => .notImpl | "ValueError" => .valueErr | "IndexError" => .indexErr | "struct.error" => .structErr
    | "AttributeError" => .attrErr | "KeyError" => .keyErr | "OverflowError" => .overflowErr | "TypeError" => .typeErr
    | "AssertionError" => .assertErr | "RuntimeError" => .runtimeErr | _ => .other

def run (cmd : String) (a : Args) : Except String String := do
  match cmd with
  | "deliver" =>
    let sw ← parseSw (← getStr a "sw")
    let kind ← getStr a "kind"
    let payload ← getOptHex a "payload"
    let r := payload.map Response.fromPayload
    let err := (get a "err").getD "other"
    let inner : Inner := if kind == "ret" then .ret r else .exc (parseErr err) r
    pure (showOuter (deliver sw inner))
  | "sendd" =>   -- send + decorator
    let sw ← parseSw (← getStr a "sw")
    let cfg ← Drv.Send.parseCfg a
    let st ← Drv.Send.parseState a
    let s ← Drv.Msg.svcByName (← getStr a "svc")
    let req : Request := { service := some s, subfunction := ← getOptNat a "sf", spr := ← getBool a "rspr", data := ← getOptHex a "data" }
    let timeout ← getOptNat a "timeout"
    let arr ← Drv.Send.parseArrivals (← getStr a "arr")
    let r := sendRequest cfg st req timeout arr
    pure s!"log={Drv.Send.showLog r.log} {showOuter (deliver sw (sendInner r))}"
  | _ => throw s!"unknown command {cmd}"

end Drv.Client
