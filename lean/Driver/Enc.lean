import Driver.Proto
import Driver.Hist
import Uds.Model.Encode
import Uds.Spec.Request
namespace Drv.Enc
open Uds Uds.Model Proto

def optLen (s : String) : Except String (Option Nat) :=
  if s == "*" then pure none else match s.toNat? with | some n => pure (some n) | none => throw s!"bad len {s}"

/-- `4660:2,22136:4,61840:*` ; `-` = empty -/
def parseDidEntries (s : String) : Except String (List (Nat × Option Nat)) :=
  if s == "-" then pure [] else
  (s.splitOn ",").mapM fun e =>
    match e.splitOn ":" with
    | [d, l] => do
      let did ← Drv.Hist.nat d
      let len ← optLen l
      pure (did, len)
    | _ => throw s!"bad did entry {e}"

/-- `x` = no default, else a length / `*` -/
def parseDefault (s : String) : Except String (Option (Option Nat)) :=
  if s == "x" then pure none else do let l ← optLen s; pure (some l)

def parseDidCfg (a : Args) : Except String DidCfg := do
  pure { entries := ← parseDidEntries (← getStr a "cfg"), default := ← parseDefault (← getStr a "def") }

def parseMaskMap (s : String) : Except String (Option (List (String × Nat))) :=
  if s == "-" then pure none else if s == "." then pure (some []) else do
    let l ← (s.splitOn "|").mapM fun kv =>
      match kv.splitOn "=" with
      | [k, v] => do let n ← Drv.Hist.nat v; pure (k, n)
      | _ => throw s!"bad mask {kv}"
    pure (some l)

/-- `len/masks/masksize` -/
def parseIoEntry (s : String) : Except String IoEntry :=
  match s.splitOn "/" with
  | [l, m, sz] => do
    pure { codecLen := ← optLen l, mask := ← parseMaskMap (m.replace "~" "="), maskSize := ← Drv.Hist.optInt sz }
  | _ => throw s!"bad io entry {s}"

def parseIoCfg (a : Args) : Except String IoCfg := do
  let es ← getStr a "iocfg"
  let entries ← if es == "-" then pure [] else
    (es.splitOn ",").mapM fun e =>
      match e.splitOn "@" with
      | [d, rest] => do
        let did ← Drv.Hist.nat d
        let en ← parseIoEntry rest
        pure (did, en)
      | _ => throw s!"bad io cfg {e}"
  let d ← getStr a "iodef"
  let dflt ← if d == "x" then pure none else do let e ← parseIoEntry d; pure (some e)
  pure { entries := entries, default := dflt }

def parseMaskArg (s : String) : Except String (Option MaskArg) :=
  if s == "-" then pure none
  else if s == "T" then pure (some (.all true))
  else if s == "F" then pure (some (.all false))
  else if s == "." then pure (some (.named []))
  else do
    let l ← (s.splitOn "|").mapM fun kv =>
      match kv.splitOn "~" with
      | [k, v] => pure (k, v == "1")
      | _ => throw s!"bad mask arg {kv}"
    pure (some (.named l))

def parseIntList (s : String) : Except String (List Int) :=
  if s == "-" then pure [] else (s.splitOn ",").mapM Drv.Hist.int

def parseSrc (s : String) : Except String (List DddSrc) :=
  if s == "-" then pure [] else
  (s.splitOn ";").mapM fun e =>
    match e.splitOn ":" with
    | [a, b, c] => do pure ⟨← Drv.Hist.int a, ← Drv.Hist.int b, ← Drv.Hist.int c⟩
    | _ => throw s!"bad src entry {e}"

def parseFs (s : String) : Except String (Option FilesizeArg) :=
  if s == "-" then pure none else
  match s.splitOn ":" with
  | ["i", v] => do pure (some (.int (← Drv.Hist.int v)))
  | ["o", u, c, w] => do pure (some (.obj (← Drv.Hist.optInt u) (← Drv.Hist.optInt c) (← Drv.Hist.optInt w)))
  | _ => throw s!"bad filesize {s}"

def showResult (r : Py Request) : String :=
  match r with
  | .error e => s!"reject:{e.tag}"
  | .ok req =>
    match req.getPayload with
    | .ok p => s!"sent:{hex p}"
    | .error e => s!"reject:{e.tag}"

/-! canonical rendering of a decoded request (the harness builds the same string from the caller's arguments) -/

def showFields (l : List (String × Nat)) : String :=
  if l.isEmpty then "-" else String.intercalate "," (l.map fun (k, v) => s!"{k}={v}")
def showBFields (l : List (String × Bytes)) : String :=
  if l.isEmpty then "-" else String.intercalate "," (l.map fun (k, v) => s!"{k}={showHex v}")
def showNats (l : List Nat) : String := if l.isEmpty then "-" else String.intercalate "," (l.map toString)

def showVal : Spec.ReqVal → String
  | .session t => s!"session {t}"
  | .reset t => s!"reset {t}"
  | .securityAccess l d => s!"securityAccess {l} {showHex d}"
  | .testerPresent z => s!"testerPresent {z}"
  | .commControl ct c n => s!"commControl {ct} {c} {showOptNat n}"
  | .accessTiming t r => s!"accessTiming {t} {showHex r}"
  | .controlDtc t r => s!"controlDtc {t} {showHex r}"
  | .linkControl t r => s!"linkControl {t} {showHex r}"
  | .routine t rid r => s!"routine {t} {rid} {showHex r}"
  | .transferData q d => s!"transferData {q} {showHex d}"
  | .transferExit d => s!"transferExit {showHex d}"
  | .clearDtc g m => s!"clearDtc {g} {showOptNat m}"
  | .rdbi ds => s!"rdbi {showNats ds}"
  | .wdbi d r => s!"wdbi {d} {showHex r}"
  | .io d p st m => s!"io {d} {showOptNat p} {showHex st} {showHex m}"
  | .readMem al sl a s => s!"readMem {al} {sl} {a} {s}"
  | .writeMem al sl a s d => s!"writeMem {al} {sl} {a} {s} {showHex d}"
  | .download dfi al sl a s => s!"download {dfi} {al} {sl} {a} {s}"
  | .upload dfi al sl a s => s!"upload {dfi} {al} {sl} {a} {s}"
  | .dddByDid d es => s!"dddByDid {d} " ++ (if es.isEmpty then "-" else String.intercalate ";" (es.map fun (a, b, c) => s!"{a}:{b}:{c}"))
  | .dddByMem d al sl es => s!"dddByMem {d} {al} {sl} " ++ (if es.isEmpty then "-" else String.intercalate ";" (es.map fun (a, b) => s!"{a}:{b}"))
  | .dddClear d => s!"dddClear {showOptNat d}"
  | .dtc sf ps => s!"dtc {sf} {showFields ps}"
  | .fileTransfer m p dfi n u c => s!"fileTransfer {m} {showHex p} {showOptNat dfi} {showOptNat n} {showOptNat u} {showOptNat c}"
  | .auth t fs => s!"auth {t} {showBFields fs}"

def run (cmd : String) (a : Args) : Except String String := do
  match cmd with
  | "enc" =>
    let e ← getStr a "e"
    match e with
    | "simple" =>
      let ent ← Drv.Hist.parseEntry (← getStr a "entry")
      pure (showResult (ent.makeRequest (← getNat a "std")))
    | "rdbi" =>
      let cfg ← parseDidCfg a
      let nocfg ← getBool a "nocfg"
      pure (showResult (rdbiMakeRequest (if nocfg then none else some cfg) (← parseIntList (← getStr a "dids"))))
    | "wdbi" =>
      pure (showResult (wdbiMakeRequest (← parseDidCfg a) (← getInt a "did") (← getHex a "val")))
    | "io" =>
      pure (showResult (ioMakeRequest (← parseIoCfg a) (← getInt a "did") (← getOptInt a "cp") (← getOptHex a "vals") (← parseMaskArg (← getStr a "masks"))))
    | "dddid" => pure (showResult (dddByDidMakeRequest (← getInt a "did") (← parseSrc (← getStr a "entries"))))
    | "dddclear" => pure (showResult (dddClearMakeRequest (← getOptInt a "did")))
    | "dtc" =>
      let args : DtcArgs := { sf := ← getInt a "sf", statusMask := ← getOptInt a "sm", severityMask := ← getOptInt a "sev", dtcClass := ← getOptInt a "cls",
                              dtc := ← getOptInt a "dtc", snapRec := ← getOptInt a "snap", extRec := ← getOptInt a "ext", memSel := ← getOptInt a "ms",
                              fgid := ← getOptInt a "fg" }
      pure (showResult (dtcMakeRequest (← getNat a "std") args))
    | "rft" =>
      pure (showResult (rftMakeRequest (← getInt a "moop") (← getHex a "path") (← getOptNat a "dfi") (← parseFs (← getStr a "fs"))))
    | "auth" =>
      let args : AuthArgs := { task := ← getInt a "task", commConf := ← getOptInt a "cc", certClient := ← getOptHex a "cert", challengeClient := ← getOptHex a "chal",
                               algo := ← getOptHex a "algo", certEvalId := ← getOptInt a "evalid", certData := ← getOptHex a "certdata",
                               pownClient := ← getOptHex a "pown", ephKeyClient := ← getOptHex a "eph", addParam := ← getOptHex a "add" }
      pure (showResult (authMakeRequest args))
    | _ => throw s!"unknown entry {e}"
  | "specdec" =>
    let view : Spec.SrvView := { ioHasParam := ← getBool a "iocp", ioStateLen := ← getNat a "iolen" }
    match Spec.decodeRequest view (← getHex a "frame") with
    | none => pure "none"
    | some d => pure s!"sid={d.sid} spr={showBool d.suppress} {showVal d.val}"
  | _ => throw s!"unknown command {cmd}"

end Drv.Enc
