import Driver.Proto
import Uds.Model.Conn
namespace Drv.Conn
open Uds Uds.Model.Conn Proto

def showOut : Out → String
  | .none => "-"
  | .frame b => "f:" ++ (if b.isEmpty then "." else hex b)
  | .timeout => "timeout"
  | .runtimeErr => "RuntimeError"
  | .oserr => "OSError"

def hexOrEmpty (h : String) : Except String Bytes :=
  if h == "." then pure [] else match unhexList h.toList with | some b => pure b | none => throw s!"bad hex {h}"

def parseAct (s : String) : Except String Act :=
  match s.splitOn ":" with
  | ["open"] => pure .open
  | ["close"] => pure .close
  | ["closer"] => pure .closeRacing
  | ["ps", h] => do pure (.peerSend (← hexOrEmpty h))
  | ["pc"] => pure .peerClose
  | ["rx", k] => match k.toNat? with | some n => pure (.rxStep n) | none => throw s!"bad {s}"
  | ["rf"] => pure .rxFault
  | ["get", e] => pure (.get (e == "1"))
  | ["flush"] => pure .flush
  | ["send", h] => do pure (.send (← hexOrEmpty h))
  | _ => throw s!"bad act {s}"

def parseQAct (s : String) : Except String QAct :=
  match s.splitOn ":" with
  | ["open"] => pure .open
  | ["close"] => pure .close
  | ["pp", h] => do pure (.peerPut (← hexOrEmpty h))
  | ["get", e] => pure (.get (e == "1"))
  | ["flush"] => pure .flush
  | ["send", h] => do pure (.send (← hexOrEmpty h))
  | _ => throw s!"bad act {s}"

def showFrames (l : List Bytes) : String :=
  if l.isEmpty then "-" else String.intercalate "/" (l.map fun b => if b.isEmpty then "." else hex b)

def run (cmd : String) (a : Args) : Except String String := do
  match cmd with
  | "conn" =>
    let kind ← match ← getStr a "kind" with
      | "dgram" => pure Kind.dgram | "seqpacket" => pure Kind.seqpacket | "stream" => pure Kind.stream
      | k => throw s!"bad kind {k}"
    let buf ← getNat a "buf"
    let acts ← ((← getStr a "acts").splitOn ",").mapM parseAct
    let (s, outs) := Uds.Model.Conn.run ({ kind := kind, bufsize := buf } : Sock) acts
    pure s!"{String.intercalate "," (outs.map showOut)} || q={s.rxq.length} alive={showBool s.alive} opened={showBool s.opened} del={showFrames (delivered s)} tx={showFrames s.toPeer}"
  | "qconn" =>
    let mtu ← getNat a "mtu"
    let acts ← ((← getStr a "acts").splitOn ",").mapM parseQAct
    let (s, outs) := qrun ({ mtu := mtu } : QConn) acts
    pure s!"{String.intercalate "," (outs.map showOut)} || q={s.fromUser.length} opened={showBool s.opened} del={showFrames (qdelivered s)} tx={showFrames s.toUser}"
  | _ => throw s!"unknown command {cmd}"

end Drv.Conn
