import Uds.Basic
/- line protocol helpers: `<cmd> k=v k=v ...` ; `-` is None / empty -/
namespace Proto
open Uds

abbrev Args := List (String × String)

def parseLine (line : String) : String × Args :=
  match (line.trimAscii.toString.splitOn " ").filter (· ≠ "") with
  | [] => ("", [])
  | cmd :: rest =>
    (cmd, rest.filterMap fun kv =>
      match kv.splitOn "=" with
      | [k, v] => some (k, v)
      | _ => none)

def get (a : Args) (k : String) : Option String := (a.find? (·.1 == k)).map (·.2)

def getStr (a : Args) (k : String) : Except String String :=
  match get a k with | some v => pure v | none => throw s!"missing {k}"

def getNat (a : Args) (k : String) : Except String Nat := do
  let v ← getStr a k
  match v.toNat? with | some n => pure n | none => throw s!"bad nat {k}={v}"

def getInt (a : Args) (k : String) : Except String Int := do
  let v ← getStr a k
  match v.toInt? with | some n => pure n | none => throw s!"bad int {k}={v}"

def getOptNat (a : Args) (k : String) : Except String (Option Nat) := do
  let v ← getStr a k
  if v == "-" then pure none else
  match v.toNat? with | some n => pure (some n) | none => throw s!"bad nat {k}={v}"

def getOptInt (a : Args) (k : String) : Except String (Option Int) := do
  let v ← getStr a k
  if v == "-" then pure none else
  match v.toInt? with | some n => pure (some n) | none => throw s!"bad int {k}={v}"

def getBool (a : Args) (k : String) : Except String Bool := do
  let v ← getStr a k
  if v == "1" then pure true else if v == "0" then pure false else throw s!"bad bool {k}={v}"

def getOptBool (a : Args) (k : String) : Except String (Option Bool) := do
  let v ← getStr a k
  if v == "-" then pure none else if v == "1" then pure (some true) else if v == "0" then pure (some false)
  else throw s!"bad bool {k}={v}"

def getHex (a : Args) (k : String) : Except String Bytes := do
  let v ← getStr a k
  match unhex v with | some b => pure b | none => throw s!"bad hex {k}={v}"

/-- `-` = None, `.` = empty bytes, else hex -/
def getOptHex (a : Args) (k : String) : Except String (Option Bytes) := do
  let v ← getStr a k
  if v == "-" then pure none else if v == "." then pure (some []) else
  match unhexList v.toList with | some b => pure (some b) | none => throw s!"bad hex {k}={v}"

/-- comma-separated list of naturals; `-` = empty -/
def getNatList (a : Args) (k : String) : Except String (List Nat) := do
  let v ← getStr a k
  if v == "-" then pure [] else
  (v.splitOn ",").mapM fun x => match x.toNat? with | some n => pure n | none => throw s!"bad nat list {k}={v}"

def showHex (b : Bytes) : String := if b.isEmpty then "-" else hex b
def showOptHex : Option Bytes → String | none => "-" | some [] => "." | some b => hex b
def showOptNat : Option Nat → String | none => "-" | some n => toString n
def showBool (b : Bool) : String := if b then "1" else "0"

end Proto
