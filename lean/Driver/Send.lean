import Driver.Proto
import Driver.Msg
import Uds.Model.Send
namespace Drv.Send
open Uds Uds.Model Proto

def parseModifier (s : String) : Except String (Option Modifier) :=
  if s == "-" then pure none
  else if s == "i" then pure (some .ident)
  else match s.splitOn ":" with
    | ["c", h] => match unhex h with | some b => pure (some (.const b)) | none => throw "bad modifier"
    | ["a", h] => match unhex h with | some b => pure (some (.append b)) | none => throw "bad modifier"
    | ["x", h] => match unhex h with | some [k] => pure (some (.xorFirst k)) | _ => throw "bad modifier"
    | _ => throw s!"bad modifier {s}"

def parseArrivals (s : String) : Except String (List Frame) :=
  if s == "-" then pure []
  else (s.splitOn ",").mapM fun x =>
    match x.splitOn ":" with
    | [t, h] => match t.toNat?, unhex h with
      | some n, some b => pure ⟨n, b⟩
      | _, _ => throw s!"bad arrival {x}"
    | _ => throw s!"bad arrival {x}"

def showOp : Op → String
  | .flush => "F"
  | .send p => "S:" ++ showHex p
  | .wait t tau => s!"W:{t}:{tau}"
  | .callback => "C"

def showLog (l : List Op) : String := if l.isEmpty then "-" else String.intercalate "," (l.map showOp)

def showKind : TimeoutKind → String | .p2 => "P2" | .p2star => "P2*" | .overall => "Global"

def showOutcome : SendOutcome → String
  | .resp r => "resp:" ++ Drv.Msg.showResp r
  | .none => "none"
  | .raised e r k => s!"raise:{e.tag}" ++ (match k with | some k => ":" ++ showKind k | none => "")
      ++ (match r with | some r => " rp=" ++ Drv.Msg.showResp r | none => "")

def parseCfg (a : Args) : Except String SendCfg := do
  pure { requestTimeout := ← getOptNat a "rt", p2 := ← getNat a "p2", p2star := ← getNat a "p2s", hasCallback := ← getBool a "cb" }

def parseState (a : Args) : Except String ClientState := do
  let tp2 ← getOptNat a "tp2"
  let tp2s ← getOptNat a "tp2s"
  let timing := match tp2, tp2s with | some x, some y => some (x, y) | _, _ => none
  pure { timing := timing, spr := { enabled := ← getBool a "spr", waitNrc := ← getBool a "wnrc" },
         override := ← parseModifier (← getStr a "ovr") }

def run (cmd : String) (a : Args) : Except String String := do
  match cmd with
  | "send" =>
    let cfg ← parseCfg a
    let st ← parseState a
    let s ← Drv.Msg.svcByName (← getStr a "svc")
    let req : Request := { service := some s, subfunction := ← getOptNat a "sf", spr := ← getBool a "rspr", data := ← getOptHex a "data" }
    let timeout ← getOptNat a "timeout"
    let arr ← parseArrivals (← getStr a "arr")
    let r := sendRequest cfg st req timeout arr
    pure s!"log={showLog r.log} end={r.tEnd} out={showOutcome r.outcome}"
  | _ => throw s!"unknown command {cmd}"

end Drv.Send
