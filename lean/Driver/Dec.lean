import Driver.Proto
import Driver.Enc
import Uds.Model.DecodeDtc
namespace Drv.Dec
open Uds Uds.Model Proto Drv.Enc

def showON : Option Nat → String := showOptNat
def showOB : Option Bytes → String := showOptHex

def showSnap (s : Snap) : String := s!"{s.record}/{showON s.did}/{showHex s.raw}"
def showExt (e : Nat × Bytes) : String := s!"{e.1}/{showHex e.2}"
def showList (l : List String) (sep : String) : String := if l.isEmpty then "-" else sep.intercalate l

def showRec (r : DtcRec) : String :=
  s!"{r.id}:{r.status}:{r.severity}:{showON r.funit}:{showON r.fault}:{showList (r.snaps.map showSnap) "+"}:{showList (r.ext.map showExt) "+"}"

def showDtc (d : DtcData) : String :=
  s!"dtc sf={d.sfEcho} ms={showON d.memSel} av={showON d.statusAvail} sevav={showON d.sevAvail} fmt={showON d.format} fg={showON d.fgid} n={d.count} recs={showList (d.dtcs.map showRec) ","}"

def showSData : SData → String
  | .echo e => s!"echo {e}"
  | .dsc e t => s!"dsc {e} " ++ (match t with | some (a, b) => s!"{a},{b}" | none => "-")
  | .reset e p => s!"reset {e} {showON p}"
  | .sa l s => s!"sa {l} {showOB s}"
  | .accessTiming e r => s!"accessTiming {e} {showHex r}"
  | .routine ct rid st => s!"routine {ct} {rid} {showHex st}"
  | .transferData q r => s!"transferData {q} {showHex r}"
  | .transferExit r => s!"transferExit {showHex r}"
  | .empty => "empty"
  | .rdbi vs => "rdbi " ++ showList (vs.map fun (k, v) => s!"{k}={showHex v}") ","
  | .wdbi d => s!"wdbi {d}"
  | .io d cp dec => s!"io {d} {showON cp} {showOB dec}"
  | .ddd sf d => s!"ddd {sf} {showON d}"
  | .readMem b => s!"readMem {showHex b}"
  | .xfer m => s!"xfer {m}"
  | .rft m ml dfi fs di fp =>
    s!"rft {m} ml={showON ml} dfi={showON dfi} fs=" ++ (match fs with | some (u, c) => s!"{u}/{showON c}" | none => "-") ++ s!" di={showON di} fp={showON fp}"
  | .auth t rv fs => s!"auth {t} {rv} " ++ showList (fs.map fun (k, v) => s!"{k}={showHex v}") ","
  | .dtc d => showDtc d

def showPyS (r : Py SData) : String :=
  match r with | .ok s => "ok " ++ showSData s | .error e => e.tag

def parseExt (s : String) : Except String ExtSize :=
  if s == "-" then pure .none
  else if s.startsWith "i" then match (s.drop 1).toString.toInt? with | some n => pure (.int n) | none => throw s!"bad ext {s}"
  else do   -- d<dtc>:<size>|...
    let body := (s.drop 1).toString
    if body == "" then pure (.dict []) else
    let l ← (body.splitOn "|").mapM fun kv =>
      match kv.splitOn ":" with
      | [k, v] => match k.toNat?, v.toInt? with
        | some a, some b => pure (a, b)
        | _, _ => throw s!"bad ext {s}"
      | _ => throw s!"bad ext {s}"
    pure (.dict l)

def run (cmd : String) (a : Args) : Except String String := do
  let d ← getHex a "d"
  let e ← getStr a "e"
  -- `Response.from_payload`: a positive response of a service whose response carries data needs at least one data byte
  -- (`send_request` raises InvalidResponseException before anything is interpreted)
  let noData := e == "simple" && (((get a "entry").getD "").startsWith "te/" || ((get a "entry").getD "").startsWith "cl/")
  if d.isEmpty && !noData then pure "invalid" else
  match e with
  | "simple" =>
    let ent ← Drv.Hist.parseEntry (← getStr a "entry")
    pure (showPyS (simpleClient (← getNat a "std") ent d))
  | "rdbi" =>
    let cfg ← parseDidCfg a
    let dids ← parseIntList (← getStr a "dids")
    pure (showPyS (rdbiClient cfg (← getBool a "tol") (dids.map Int.toNat) d))
  | "wdbi" => pure (showPyS (wdbiClient (← getNat a "did") d))
  | "ddd" => pure (showPyS (dddClient (← getNat a "sf") (← getOptNat a "did") (← getBool a "strict") d))
  | "readmem" => pure (showPyS (readMemClient (← getNat a "size") (← getBool a "tol") d))
  | "xfer" => pure (showPyS (xferInterpret d))
  | "io" => pure (showPyS (ioClient (← parseIoCfg a) (← getNat a "did") (← getOptNat a "cp") (← getBool a "tol") d))
  | "rft" => pure (showPyS (rftClient (← getNat a "moop") (← getOptNat a "dfi") (← getBool a "tol") d))
  | "auth" => pure (showPyS (authClient (← getNat a "task") d))
  | "dtc" =>
    let dids ← if (← getStr a "cfg") == "none" then pure none else do let c ← parseDidCfg a; pure (some c)
    let c : DtcCfg := { std := ← getNat a "std", tol := ← getBool a "tol", ign := ← getBool a "ign", didSize := ← getNat a "k", dids := dids,
                        ext := ← parseExt (← getStr a "ext") }
    let q : DtcReqCtx := { sf := ← getInt a "sf", dtc := ← getOptNat a "dtc", snapRec := ← getOptNat a "snap", extRec := ← getOptNat a "xrec",
                           memSel := ← getOptNat a "ms", fgid := ← getOptNat a "fg" }
    pure (match dtcClient c q d with | .ok r => "ok " ++ showDtc r | .error e => e.tag)
  | _ => throw s!"unknown decoder {e}"

end Drv.Dec
