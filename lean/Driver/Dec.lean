import Driver.Proto
import Driver.Enc
import Driver.Send
import Driver.Hist
import Uds.Model.DecodeDtc
import Uds.Model.Entry
namespace Drv.Dec
open Uds Uds.Model Proto Drv.Enc

def showON : Option Nat → String := showOptNat
def showOB : Option Bytes → String := showOptHex

def showSnap (s : Snap) : String := s!"{s.record}/{showON s.did}/{showHex s.raw}"
def showExt (e : Nat × Bytes) : String := s!"{e.1}/{showHex e.2}"
def showList (l : List String) (sep : String) : String := if l.isEmpty then "-" else sep.intercalate l

def showRec (r : DtcRec) : String :=
  s!"{r.id}:{r.status}:{r.severity}:{showON r.funit}:{showON r.fault}:{showList (r.snaps.map showSnap) "+"}:{showList (r.ext.map showExt) "+"}"

def showDtc (d : DtcData) : String :=
  s!"dtc sf={d.sfEcho} ms={showON d.memSel} av={showON d.statusAvail} sevav={showON d.sevAvail} fmt={showON d.format} fg={showON d.fgid} n={d.count} recs={showList (d.dtcs.map showRec) ","}"

def showSData : SData → String
  | .echo e => s!"echo {e}"
  | .dsc e t => s!"dsc {e} " ++ (match t with | some (a, b) => s!"{a},{b}" | none => "-")
  | .reset e p => s!"reset {e} {showON p}"
  | .sa l s => s!"sa {l} {showOB s}"
  | .accessTiming e r => s!"accessTiming {e} {showHex r}"
  | .routine ct rid st => s!"routine {ct} {rid} {showHex st}"
  | .transferData q r => s!"transferData {q} {showHex r}"
  | .transferExit r => s!"transferExit {showHex r}"
  | .empty => "empty"
  | .rdbi vs => "rdbi " ++ showList (vs.map fun (k, v) => s!"{k}={showHex v}") ","
  | .wdbi d => s!"wdbi {d}"
  | .io d cp dec => s!"io {d} {showON cp} {showOB dec}"
  | .ddd sf d => s!"ddd {sf} {showON d}"
  | .readMem b => s!"readMem {showHex b}"
  | .xfer m => s!"xfer {m}"
  | .rft m ml dfi fs di fp =>
    s!"rft {m} ml={showON ml} dfi={showON dfi} fs=" ++ (match fs with | some (u, c) => s!"{u}/{showON c}" | none => "-") ++ s!" di={showON di} fp={showON fp}"
  | .auth t rv fs => s!"auth {t} {rv} " ++ showList (fs.map fun (k, v) => s!"{k}={showHex v}") ","
  | .dtc d => showDtc d

def showPyS (r : Py SData) : String :=
  match r with | .ok s => "ok " ++ showSData s | .error e => e.tag

def parseExt (s : String) : Except String ExtSize :=
  if s == "-" then pure .none
  else if s.startsWith "i" then match (s.drop 1).toString.toInt? with | some n => pure (.int n) | none => throw s!"bad ext {s}"
  else do   -- d<dtc>:<size>|...
    let body := (s.drop 1).toString
    if body == "" then pure (.dict []) else
    let l ← (body.splitOn "|").mapM fun kv =>
      match kv.splitOn ":" with
      | [k, v] => match k.toNat?, v.toInt? with
        | some a, some b => pure (a, b)
        | _, _ => throw s!"bad ext {s}"
      | _ => throw s!"bad ext {s}"
    pure (.dict l)

/-- the client-side interpretation + echo checks of the family named by `e=`, as a function from reply data to a printed outcome -/
def postFor (a : Args) : Except String (Bytes → Py String) := do
  let e ← getStr a "e"
  match e with
  | "simple" =>
    let ent ← Drv.Hist.parseEntry (← getStr a "entry")
    let std ← getNat a "std"
    pure fun d => (simpleClient std ent d).map showSData
  | "rdbi" =>
    let cfg ← parseDidCfg a
    let dids ← parseIntList (← getStr a "dids")
    let tol ← getBool a "tol"
    pure fun d => (rdbiClient cfg tol (dids.map Int.toNat) d).map showSData
  | "wdbi" => let did ← getNat a "did"; pure fun d => (wdbiClient did d).map showSData
  | "ddd" =>
    let sf ← getNat a "sf"; let did ← getOptNat a "did"; let strict ← getBool a "strict"
    pure fun d => (dddClient sf did strict d).map showSData
  | "readmem" => let size ← getNat a "size"; let tol ← getBool a "tol"; pure fun d => (readMemClient size tol d).map showSData
  | "xfer" => pure fun d => (xferInterpret d).map showSData
  | "io" =>
    let cfg ← parseIoCfg a; let did ← getNat a "did"; let cp ← getOptNat a "cp"; let tol ← getBool a "tol"
    pure fun d => (ioClient cfg did cp tol d).map showSData
  | "rft" =>
    let moop ← getNat a "moop"; let dfi ← getOptNat a "dfi"; let tol ← getBool a "tol"
    pure fun d => (rftClient moop dfi tol d).map showSData
  | "auth" => let task ← getNat a "task"; pure fun d => (authClient task d).map showSData
  | "dtc" =>
    let dids ← if (← getStr a "cfg") == "none" then pure none else do let c ← parseDidCfg a; pure (some c)
    let c : DtcCfg := { std := ← getNat a "std", tol := ← getBool a "tol", ign := ← getBool a "ign", didSize := ← getNat a "k", dids := dids,
                        ext := ← parseExt (← getStr a "ext") }
    let q : DtcReqCtx := { sf := ← getInt a "sf", dtc := ← getOptNat a "dtc", snapRec := ← getOptNat a "snap", extRec := ← getOptNat a "xrec",
                           memSel := ← getOptNat a "ms", fgid := ← getOptNat a "fg" }
    pure fun d => (dtcClient c q d).map showDtc
  | _ => throw s!"unknown decoder {e}"

def showCallOut : CallOut String → String
  | .ret none => "none"
  | .ret (some v) => "ok " ++ v
  | .exc e => e.tag

def run (cmd : String) (a : Args) : Except String String := do
  if cmd == "callw" then
    -- the whole undecorated client method: the request as transmitted, send_request over the arrivals, the family's interpretation (`callWith`)
    let post ← postFor a
    let cfg ← Drv.Send.parseCfg a
    let st ← Drv.Send.parseState a
    let s ← Drv.Msg.svcByName (← getStr a "svc")
    let req : Request := { service := some s, subfunction := ← getOptNat a "sf", spr := false, data := ← getOptHex a "data" }
    let arr ← Drv.Send.parseArrivals (← getStr a "arr")
    match get a "sw" with
    | some sw =>
      -- … as delivered by the method's decorator under the given exception_on_* switches
      let sw ← Drv.Client.parseSw sw
      pure s!"log={Drv.Send.showLog (sendRequest cfg st req none arr).log} {Drv.Client.showOuter (deliver sw (callWithI cfg st req post arr))}"
    | none =>
    pure s!"log={Drv.Send.showLog (sendRequest cfg st req none arr).log} out={showCallOut (callWith cfg st req post arr)}"
  else
  let d ← getHex a "d"
  let e ← getStr a "e"
  -- `Response.from_payload`: a positive response of a service whose response carries data needs at least one data byte
  -- (`send_request` raises InvalidResponseException before anything is interpreted)
  let noData := e == "simple" && (((get a "entry").getD "").startsWith "te/" || ((get a "entry").getD "").startsWith "cl/")
  if d.isEmpty && !noData then pure "invalid" else
  let post ← postFor a
  pure (match post d with | .ok v => "ok " ++ v | .error e => e.tag)

end Drv.Dec
