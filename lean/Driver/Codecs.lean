import Driver.Proto
import Uds.Model.Codecs
namespace Drv.Codecs
open Uds Uds.Model Proto

def one (what : String) (n : Nat) : Bytes :=
  if what == "dtc" then packDtc n
  else match Baudrate.mk' (Int.ofNat n) (some (some .specific)) with
    | .ok b => match b.getBytes with | .ok bs => bs | .error _ => []
    | .error _ => []

def M : Nat := 2147483647  -- 2^31 - 1 (keeps every intermediate a small Nat)

partial def hashRange (what : String) (n hi stride : Nat) (h : Nat) : Nat :=
  if n ≥ hi then h
  else
    let h' := (one what n).foldl (fun acc b => (acc * 257 + b.toNat + 1) % M) h
    hashRange what (n + stride) hi stride h'

def run (cmd : String) (a : Args) : Except String String := do
  match cmd with
  | "codec.one" => pure (showHex (one (← getStr a "what") (← getNat a "n")))
  | "codec.hash" =>
    pure (toString (hashRange (← getStr a "what") (← getNat a "lo") (← getNat a "hi") (← getNat a "stride") 0))
  | _ => throw s!"unknown command {cmd}"

end Drv.Codecs
