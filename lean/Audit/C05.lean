import Audit.Tool
import Uds.Props.C05
#audit Uds.Props.C05
