import Audit.Tool
import Uds.Props.C05
import Uds.Props.C05Hist
#audit Uds.Props.C05
