import Audit.Tool
import Uds.Props.C09
#audit Uds.Props.C09
