import Audit.Tool
import Uds.Props.C09
import Uds.Props.C09Call
#audit Uds.Props.C09
