import Audit.Tool
import Uds.Props.C09
import Uds.Props.C09Call
import Uds.Props.C09Hist
import Uds.Props.C09Block
import Uds.Props.CallUnify
#audit Uds.Props.C09
#audit Uds.Props.CallUnify
