import Audit.Tool
import Uds.Props.C01
import Uds.Props.C01Hist
#audit Uds.Props.C01
