import Audit.Tool
import Uds.Props.C01
#audit Uds.Props.C01
