import Audit.Tool
import Uds.Props.C07
#audit Uds.Props.C07
