import Audit.Tool
import Uds.Props.C02
#audit Uds.Props.C02
