import Audit.Tool
import Uds.Props.C02
import Uds.Props.C02Call
#audit Uds.Props.C02
