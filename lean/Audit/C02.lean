import Audit.Tool
import Uds.Props.C02
import Uds.Props.C02Call
import Uds.Props.C02Hist
#audit Uds.Props.C02
