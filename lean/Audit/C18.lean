import Audit.Tool
import Uds.Props.C18
import Uds.Tie.Editions
#audit Uds.Props.C18
#audit Uds.Tie.Editions
