import Audit.Tool
import Uds.Props.C14
import Uds.Props.C14Reuse
#audit Uds.Props.C14
