import Audit.Tool
import Uds.Props.C14
#audit Uds.Props.C14
