import Audit.Tool
import Uds.Props.C12
#audit Uds.Props.C12
