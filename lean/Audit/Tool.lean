import Lean
/-
  `#audit Ns` prints, for every theorem whose name starts with `Ns` (excluding auxiliary
  declarations), the axioms it depends on and a hash of its statement.  The check parses this.
-/
open Lean Elab Command

elab "#audit " ns:ident : command => do
  let env ← getEnv
  let pre := ns.getId
  let mut names : Array Name := #[]
  for (n, ci) in env.constants.toList do
    if pre.isPrefixOf n && !n.isInternal then
      match ci with
      | .thmInfo _ => names := names.push n
      | _ => pure ()
  let sorted := names.qsort (fun a b => a.toString < b.toString)
  for n in sorted do
    let axs ← liftCoreM (Lean.collectAxioms n)
    let some ci := env.find? n | continue
    let ty ← liftTermElabM (do let f ← Meta.ppExpr ci.type; pure (toString f))
    let axl := (axs.qsort (fun a b => a.toString < b.toString)).toList.map toString
    logInfo m!"AUDIT {n} AXIOMS [{String.intercalate "," axl}] HASH {hash ty}"
