import Audit.Tool
import Uds.Props.C11
#audit Uds.Props.C11
