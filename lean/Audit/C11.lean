import Audit.Tool
import Uds.Props.C11
import Uds.Props.C11Call
#audit Uds.Props.C11
