import Audit.Tool
import Uds.Props.C10
#audit Uds.Props.C10
