import Audit.Tool
import Uds.Props.C10
import Uds.Props.C10Hist
#audit Uds.Props.C10
