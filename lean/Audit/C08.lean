import Audit.Tool
import Uds.Props.C08
#audit Uds.Props.C08
