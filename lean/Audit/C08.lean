import Audit.Tool
import Uds.Props.C08
import Uds.Props.C08Call
#audit Uds.Props.C08
