import Audit.Tool
import Uds.Props.C08
import Uds.Props.C08Call
import Uds.Props.C08Hist
#audit Uds.Props.C08
