import Audit.Tool
import Uds.Props.C15
#audit Uds.Props.C15
