import Audit.Tool
import Uds.Props.C15
import Uds.Props.C15Hist
#audit Uds.Props.C15
