import Audit.Tool
import Uds.Props.C15
import Uds.Props.C15Hist
import Uds.Props.C15Stray
#audit Uds.Props.C15
