import Audit.Tool
import Uds.Props.C04
import Uds.Props.C04Unlock
#audit Uds.Props.C04
