import Audit.Tool
import Uds.Props.C04
#audit Uds.Props.C04
