import Audit.Tool
import Uds.Props.C04
import Uds.Props.C04Unlock
import Uds.Props.C04Hist
#audit Uds.Props.C04
