import Audit.Tool
import Uds.Props.C13
import Uds.Props.C15Stray
#audit Uds.Props.C13
