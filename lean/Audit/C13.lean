import Audit.Tool
import Uds.Props.C13
#audit Uds.Props.C13
