import Audit.Tool
import Uds.Props.C17
#audit Uds.Props.C17
