import Audit.Tool
import Uds.Props.C06
import Uds.Props.C06Call
import Uds.Props.CallUnify
#audit Uds.Props.C06
#audit Uds.Props.CallUnify
