import Audit.Tool
import Uds.Props.C06
import Uds.Props.C06Call
#audit Uds.Props.C06
