import Audit.Tool
import Uds.Props.C06
import Uds.Props.C06Call
import Uds.Props.CallUnify
import Uds.Props.C06Hist
#audit Uds.Props.C06
#audit Uds.Props.CallUnify
