import Audit.Tool
import Uds.Props.C06
#audit Uds.Props.C06
