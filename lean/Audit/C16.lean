import Audit.Tool
import Uds.Props.C16
#audit Uds.Props.C16
