import Audit.Tool
import Uds.Props.C20
import Uds.Tie.Names
#audit Uds.Props.C20
#audit Uds.Tie.Names
