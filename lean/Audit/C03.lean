import Audit.Tool
import Uds.Props.C03
import Uds.Props.C03Call
import Uds.Props.C03Hist
#audit Uds.Props.C03
