import Audit.Tool
import Uds.Props.C03
#audit Uds.Props.C03
