import Audit.Tool
import Uds.Props.C03
import Uds.Props.C03Call
#audit Uds.Props.C03
