import Audit.Tool
import Uds.Props.C19
import Uds.Tie.Codecs
#audit Uds.Props.C19
#audit Uds.Tie.Codecs
